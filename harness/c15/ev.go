package main

import (
	"fmt"
	"runtime"
	"sort"
	"sync"
	"sync/atomic"

	"github.com/iotaledger/hive.go/runtime/event"
	"github.com/iotaledger/hive.go/runtime/workerpool"
	"verif/harness/internal/vf"
)

// Fingerprints of the event clause.
const (
	fpEvMissed     = "event/hook-missed"               // attached before Trigger began, not unhooked when it returned, not invoked
	fpEvTwice      = "event/hook-called-twice"         // one Trigger invoked a hook more than once
	fpEvUnhooked   = "event/detached-hook-called"      // Unhook returned before Trigger began (or Hook was invoked after it returned), yet invoked
	fpEvWindow     = "event/sync-hook-outside-trigger" // synchronous hook ran outside [Trigger call, Trigger return]
	fpEvOrder      = "event/attachment-order"          // synchronous hooks not in attachment order
	fpEvArgs       = "event/wrong-arguments"           // hook received arguments no Trigger passed
	fpEvMaxEvent   = "event/max-trigger-count/event"   // event limited to n fired != min(n, k)
	fpEvMaxHook    = "event/max-trigger-count/hook"    // hook limited to n fired != min(n, k)
	fpEvLinkFormer = "event/link-former-target-fired"  // trigger of a target that cannot be the current link target fired the linked event
	fpEvLinkMissed = "event/link-missed"               // trigger of the certainly current target did not fire the linked event
	fpEvLinkTwice  = "event/link-twice"                // linked event fired twice for one trigger
	fpEvPanic      = "event/panic"                     // a call into runtime/event panicked (then the calls it owed were not delivered)
)

type invRec struct{ arg, t uint64 }

type hookRec struct {
	id          int
	pooled      bool
	max         int
	hCall, hRet uint64
	uCall, uRet uint64
	n           atomic.Int64
	inv         []invRec
	unhook      func()
	yield       int // Gosched calls inside the callback (widens the Trigger interval)
}

func newHookRec(id, capacity int) *hookRec { return &hookRec{id: id, inv: make([]invRec, capacity)} }

func (h *hookRec) cb(arg uint64) {
	t := tick()
	i := h.n.Add(1) - 1
	if int(i) < len(h.inv) {
		h.inv[i] = invRec{arg, t}
	}
	for y := 0; y < h.yield; y++ {
		runtime.Gosched()
	}
}

// barrier releases its goroutines together (spinning, so that they start within a few
// instructions of each other instead of in wake-up order).
type barrier struct {
	n int32
	c atomic.Int32
}

func (b *barrier) wait() {
	b.c.Add(1)
	for b.c.Load() < b.n {
		runtime.Gosched()
	}
}

func (h *hookRec) calls() []invRec {
	n := int(h.n.Load())
	if n > len(h.inv) {
		n = len(h.inv)
	}
	return h.inv[:n]
}

type trigRec struct {
	arg, call, ret uint64
	target         int
}

var argBase atomic.Uint64

type evEnv struct {
	c    *vf.Ctx
	rep  *reporter
	pool *workerpool.WorkerPool
	race bool
}

func (e *evEnv) drain() { e.pool.PendingTasksCounter.WaitIsZero() }

func guard(panics *atomic.Int64, f func()) {
	defer func() {
		if p := recover(); p != nil {
			panics.Add(1)
		}
	}()
	f()
}

func evChild(c *vf.Ctx, part int, race bool, only string, onlyNo int) {
	env := &evEnv{c: c, rep: newReporter(c), race: race}
	env.pool = workerpool.New("c15", workerpool.WithWorkerCount(4)).Start()
	kinds := []string{"dyn", "dyn-pooled", "max-event", "max-hook", "max-hookless", "link", "ev0", "ev2"}
	rounds := c.Pick(500, 1500)
	if race {
		rounds = c.Pick(200, 500)
	}
	if only != "" {
		for k := 0; k < 50; k++ {
			env.round(only, onlyNo)
		}
		return
	}
	if part == 0 {
		env.reentrantAll(-1)
		env.redundantAll()
	}
	for r := 0; r < rounds; r++ {
		for _, k := range kinds {
			env.round(k, part*1000000+r)
		}
		// the limit rounds are cheap and their verdict needs real overlap of a few instructions:
		// more of them (own PRNG streams) keep the observation robust on a loaded machine
		for j := 1; j <= 3; j++ {
			for _, k := range []string{"max-event", "max-hook", "max-hookless", "max-ladder"} {
				env.round(k, part*1000000+j*100000+r)
			}
		}
	}
}

func (e *evEnv) round(kind string, no int) {
	switch kind {
	case "reentrant":
		e.reentrantAll(no)
	case "dyn":
		e.roundDyn(no, false)
	case "dyn-pooled":
		e.roundDyn(no, true)
	case "max-event":
		e.roundMax(no, true)
	case "max-hook":
		e.roundMax(no, false)
	case "max-hookless":
		e.roundHookless(no)
	case "max-ladder":
		e.roundLadder(no)
	case "link":
		e.roundLink(no)
	case "ev0":
		e.roundEv0(no)
	case "ev2":
		e.roundEv2(no)
	}
}

func (e *evEnv) rec(kind string, no int, detail any) replayRec {
	return replayRec{Kind: "conc", Child: "event", Round: kind, RoundNo: no, Seed: e.c.Seed, Race: e.race, Detail: detail}
}

// ---------------------------------------------------------------- Trigger / Hook / Unhook

func (e *evEnv) roundDyn(no int, pooled bool) {
	kind := "dyn"
	if pooled {
		kind = "dyn-pooled"
	}
	rng := e.c.Rand(fmt.Sprintf("ev/%s/%d", kind, no))
	nS := 1 + rng.Intn(3)
	nT := 1 + rng.Intn(4)
	nH := 1 + rng.Intn(3)
	if nT+nH < 2 {
		nH = 1
	}
	m := 4 + rng.Intn(24)
	cycles := 3 + rng.Intn(16)
	yieldT := rng.Intn(3)
	yieldH := rng.Intn(4)
	cbYield := rng.Intn(3)
	redundantUnhook := rng.Intn(2) == 0
	eventLevelPool := pooled && rng.Intn(2) == 0
	total := nT * m
	base := argBase.Add(uint64(total)) - uint64(total)

	var ev *event.Event1[uint64]
	if eventLevelPool {
		ev = event.New1[uint64](event.WithWorkerPool(e.pool))
	} else {
		ev = event.New1[uint64]()
	}
	var opts []event.Option
	if pooled && !eventLevelPool {
		opts = append(opts, event.WithWorkerPool(e.pool))
	}
	var panics atomic.Int64
	var hooks []*hookRec
	var hooksMu sync.Mutex
	nextID := 0
	attach := func() *hookRec {
		hooksMu.Lock()
		h := newHookRec(nextID, total+8)
		nextID++
		hooks = append(hooks, h)
		hooksMu.Unlock()
		h.pooled = pooled
		h.yield = cbYield
		h.hCall = tick()
		guard(&panics, func() {
			hk := ev.Hook(h.cb, opts...)
			h.unhook = hk.Unhook
		})
		h.hRet = tick()
		return h
	}
	for i := 0; i < nS; i++ {
		attach()
	}
	trigs := make([][]trigRec, nT)
	var wg sync.WaitGroup
	start := &barrier{n: int32(nT + nH)}
	for g := 0; g < nT; g++ {
		wg.Add(1)
		go func(g int) {
			defer wg.Done()
			start.wait()
			for i := 0; i < m; i++ {
				t := trigRec{arg: base + uint64(g*m+i)}
				t.call = tick()
				guard(&panics, func() { ev.Trigger(t.arg) })
				t.ret = tick()
				trigs[g] = append(trigs[g], t)
				for y := 0; y < yieldT; y++ {
					runtime.Gosched()
				}
			}
		}(g)
	}
	for g := 0; g < nH; g++ {
		wg.Add(1)
		go func(g int) {
			defer wg.Done()
			start.wait()
			var prev *hookRec
			for i := 0; i < cycles; i++ {
				h := attach()
				if redundantUnhook && prev != nil && prev.unhook != nil {
					// Unhook again on a handle that is already detached, after a newer hook was
					// attached: must not affect any other hook
					guard(&panics, prev.unhook)
					if i%3 == 0 {
						guard(&panics, prev.unhook)
					}
				}
				prev = h
				for y := 0; y < yieldH; y++ {
					runtime.Gosched()
				}
				if h.unhook != nil {
					uc := tick()
					guard(&panics, h.unhook)
					h.uRet = tick()
					h.uCall = uc
				}
			}
		}(g)
	}
	wg.Wait()
	if pooled {
		e.drain()
	}
	c := e.c
	detail := map[string]any{"static_hooks": nS, "trigger_goroutines": nT, "triggers_each": m, "hook_goroutines": nH, "cycles": cycles, "pooled": pooled, "event_level_pool": eventLevelPool}
	if p := panics.Load(); p > 0 {
		e.rep.viol(fpEvPanic, fmt.Sprintf("%s round %d: %d calls into runtime/event panicked", kind, no, p), e.rec(kind, no, detail))
	}
	var all []trigRec
	for _, ts := range trigs {
		all = append(all, ts...)
	}
	overl := 0
	type call struct {
		h *hookRec
		t uint64
	}
	perTrig := make([][]call, total)
	for _, h := range hooks {
		cnt := make([]int32, total)
		tk := make([]uint64, total)
		if int(h.n.Load()) > len(h.inv) {
			e.rep.viol(fpEvTwice, fmt.Sprintf("%s round %d: hook #%d was invoked %d times by %d triggers", kind, no, h.id, h.n.Load(), total), e.rec(kind, no, detail))
		}
		for _, iv := range h.calls() {
			if iv.arg < base || iv.arg >= base+uint64(total) {
				e.rep.viol(fpEvArgs, fmt.Sprintf("%s round %d: hook #%d received argument %d that no Trigger of this event passed", kind, no, h.id, iv.arg), e.rec(kind, no, detail))
				continue
			}
			cnt[iv.arg-base]++
			tk[iv.arg-base] = iv.t
		}
		for _, t := range all {
			i := t.arg - base
			c.Count("evaluations", 1)
			must := h.hRet < t.call && (h.uCall == 0 || h.uCall > t.ret)
			mustNot := (h.uRet != 0 && h.uRet < t.call) || h.hCall > t.ret
			if !must && !mustNot {
				overl++
			}
			switch {
			case cnt[i] > 1:
				e.rep.viol(fpEvTwice, fmt.Sprintf("%s round %d: Trigger(%d) invoked hook #%d %d times", kind, no, t.arg, h.id, cnt[i]), e.rec(kind, no, detail))
			case must && cnt[i] == 0:
				e.rep.viol(fpEvMissed, fmt.Sprintf("%s round %d: Hook #%d returned at tick %d, Trigger(%d) ran [%d,%d], Unhook invoked at %d (0 = never): hook was not invoked", kind, no, h.id, h.hRet, t.arg, t.call, t.ret, h.uCall), e.rec(kind, no, detail))
			case mustNot && cnt[i] > 0:
				e.rep.viol(fpEvUnhooked, fmt.Sprintf("%s round %d: hook #%d (Hook [%d,%d], Unhook [%d,%d]) was invoked by Trigger(%d) [%d,%d]", kind, no, h.id, h.hCall, h.hRet, h.uCall, h.uRet, t.arg, t.call, t.ret), e.rec(kind, no, detail))
			}
			if cnt[i] == 1 && !pooled {
				if tk[i] < t.call || tk[i] > t.ret {
					e.rep.viol(fpEvWindow, fmt.Sprintf("%s round %d: synchronous hook #%d ran at tick %d, outside Trigger(%d) [%d,%d]", kind, no, h.id, tk[i], t.arg, t.call, t.ret), e.rec(kind, no, detail))
				}
				perTrig[i] = append(perTrig[i], call{h, tk[i]})
			}
		}
	}
	if !pooled {
		for i, cs := range perTrig {
			sort.Slice(cs, func(a, b int) bool { return cs[a].t < cs[b].t })
			for a := 0; a < len(cs); a++ {
				for b := a + 1; b < len(cs); b++ {
					c.Count("ev_order_pairs_checked", 1)
					if cs[b].h.hRet < cs[a].h.hCall { // b attached strictly before a, yet invoked after it
						e.rep.viol(fpEvOrder, fmt.Sprintf("dyn round %d: Trigger(%d) invoked hook #%d (attached [%d,%d]) before hook #%d (attached [%d,%d])", no, base+uint64(i), cs[a].h.id, cs[a].h.hCall, cs[a].h.hRet, cs[b].h.id, cs[b].h.hCall, cs[b].h.hRet), e.rec(kind, no, detail))
					}
				}
			}
		}
	}
	c.Count("ev_trigger_hook_pairs_overlapping", overl)
	c.Count("ev_rounds:"+kind, 1)
	if overl > 0 {
		c.Distinct("nontrivial", fmt.Sprintf("ev/%s/S%d/T%d/H%d/elp=%v/race=%v", kind, nS, nT, nH, eventLevelPool, e.race))
		if no%1000000 == 5 && c.WantSample() {
			c.Sample(map[string]any{"kind": "event " + kind + " round", "round": no, "race_build": e.race, "config": detail, "hook_instances": len(hooks), "triggers": total, "trigger_hook_pairs_overlapping_hook_or_unhook": overl})
		}
	}
}

// ---------------------------------------------------------------- WithMaxTriggerCount

func (e *evEnv) roundMax(no int, onEvent bool) {
	kind := "max-hook"
	if onEvent {
		kind = "max-event"
	}
	rng := e.c.Rand(fmt.Sprintf("ev/%s/%d", kind, no))
	nT := 1 + rng.Intn(6)
	per := 1 + rng.Intn(4)
	k := nT * per
	pooled := rng.Intn(3) == 0
	base := argBase.Add(uint64(k)) - uint64(k)
	var evOpts []event.Option
	evMax := 0
	if onEvent {
		evMax = 1 + rng.Intn(k+3)
		evOpts = append(evOpts, event.WithMaxTriggerCount(uint64(evMax)))
	}
	ev := event.New1[uint64](evOpts...)
	nHk := 1 + rng.Intn(3)
	var hooks []*hookRec
	var panics atomic.Int64
	for i := 0; i < nHk; i++ {
		h := newHookRec(i, k+8)
		var opts []event.Option
		if !onEvent && (i > 0 || rng.Intn(4) != 0) {
			h.max = 1 + rng.Intn(k+3)
			opts = append(opts, event.WithMaxTriggerCount(uint64(h.max)))
		}
		if pooled {
			h.pooled = true
			opts = append(opts, event.WithWorkerPool(e.pool))
		}
		guard(&panics, func() { ev.Hook(h.cb, opts...) })
		hooks = append(hooks, h)
	}
	var wg sync.WaitGroup
	start := &barrier{n: int32(nT)}
	for g := 0; g < nT; g++ {
		wg.Add(1)
		go func(g int) {
			defer wg.Done()
			start.wait()
			for i := 0; i < per; i++ {
				guard(&panics, func() { ev.Trigger(base + uint64(g*per+i)) })
			}
		}(g)
	}
	wg.Wait()
	if pooled {
		e.drain()
	}
	detail := map[string]any{"trigger_goroutines": nT, "triggers_each": per, "event_max": evMax, "pooled": pooled}
	if p := panics.Load(); p > 0 {
		e.rep.viol(fpEvPanic, fmt.Sprintf("%s round %d: %d calls into runtime/event panicked", kind, no, p), e.rec(kind, no, detail))
	}
	for _, h := range hooks {
		e.c.Count("evaluations", 1)
		want := k
		fp := fpEvMaxHook
		limit := h.max
		if onEvent {
			fp = fpEvMaxEvent
			limit = evMax
		}
		if limit != 0 && limit < want {
			want = limit
		}
		got := int(h.n.Load())
		seen := map[uint64]bool{}
		dup := false
		for _, iv := range h.calls() {
			if seen[iv.arg] {
				dup = true
			}
			seen[iv.arg] = true
			if iv.arg < base || iv.arg >= base+uint64(k) {
				e.rep.viol(fpEvArgs, fmt.Sprintf("%s round %d: hook received argument %d that no Trigger passed", kind, no, iv.arg), e.rec(kind, no, detail))
			}
		}
		if dup {
			e.rep.viol(fpEvTwice, fmt.Sprintf("%s round %d: a hook was invoked twice with the same trigger argument", kind, no), e.rec(kind, no, detail))
		}
		if got != want {
			e.rep.viol(fp, fmt.Sprintf("%s round %d: limit %d, %d triggers from %d goroutines: hook fired %d times, expected min(n,k) = %d", kind, no, limit, k, nT, got, want), e.rec(kind, no, detail))
		}
		if limit != 0 && k > limit && nT > 1 {
			e.c.Count("ev_max_limit_exceeded_concurrently", 1)
		}
	}
	e.c.Count("ev_max_rounds", 1)
	e.c.Count("ev_rounds:"+kind, 1)
	if nT > 1 {
		e.c.Distinct("nontrivial", fmt.Sprintf("ev/%s/T%d/pooled=%v/race=%v", kind, nT, pooled, e.race))
	}
}

// ---------------------------------------------------------------- LinkTo

type linkRec struct {
	target    int // 0 = A, 1 = B, -1 = nil
	call, ret uint64
}

func (e *evEnv) roundLink(no int) {
	rng := e.c.Rand(fmt.Sprintf("ev/link/%d", no))
	nT := 1 + rng.Intn(3)
	m := 10 + rng.Intn(50)
	nLink := 4 + rng.Intn(20)
	yieldL := rng.Intn(4)
	total := nT * m
	base := argBase.Add(uint64(total)) - uint64(total)
	targets := []*event.Event1[uint64]{event.New1[uint64](), event.New1[uint64]()}
	linked := event.New1[uint64]()
	h := newHookRec(0, 2*total+8)
	h.yield = rng.Intn(3)
	var panics atomic.Int64
	guard(&panics, func() { linked.Hook(h.cb) })
	// targets also carry an ordinary hook each: linking must not disturb it
	plain := []*hookRec{newHookRec(1, total+8), newHookRec(2, total+8)}
	for i, t := range targets {
		guard(&panics, func() { t.Hook(plain[i].cb) })
	}
	var links []linkRec
	first := rng.Intn(3) - 1
	if first >= 0 {
		l := linkRec{target: first}
		l.call = tick()
		guard(&panics, func() { linked.LinkTo(targets[first]) })
		l.ret = tick()
		links = append(links, l)
	}
	linkProg := make([]int, nLink)
	for i := range linkProg {
		linkProg[i] = rng.Intn(3) - 1
		if rng.Intn(3) != 0 && linkProg[i] < 0 {
			linkProg[i] = rng.Intn(2)
		}
	}
	trigProg := make([][]int, nT)
	for g := range trigProg {
		for i := 0; i < m; i++ {
			trigProg[g] = append(trigProg[g], rng.Intn(2))
		}
	}
	trigs := make([][]trigRec, nT)
	var wg sync.WaitGroup
	start := &barrier{n: int32(nT + 1)}
	wg.Add(1)
	go func() {
		defer wg.Done()
		start.wait()
		for _, tg := range linkProg {
			l := linkRec{target: tg}
			l.call = tick()
			guard(&panics, func() {
				if tg < 0 {
					linked.LinkTo(nil)
				} else {
					linked.LinkTo(targets[tg])
				}
			})
			l.ret = tick()
			links = append(links, l)
			for y := 0; y < yieldL; y++ {
				runtime.Gosched()
			}
		}
	}()
	for g := 0; g < nT; g++ {
		wg.Add(1)
		go func(g int) {
			defer wg.Done()
			start.wait()
			for i, tg := range trigProg[g] {
				t := trigRec{arg: base + uint64(g*m+i), target: tg}
				t.call = tick()
				guard(&panics, func() { targets[tg].Trigger(t.arg) })
				t.ret = tick()
				trigs[g] = append(trigs[g], t)
			}
		}(g)
	}
	wg.Wait()
	detail := map[string]any{"trigger_goroutines": nT, "triggers_each": m, "linkto_calls": len(links)}
	if p := panics.Load(); p > 0 {
		e.rep.viol(fpEvPanic, fmt.Sprintf("link round %d: %d calls into runtime/event panicked", no, p), e.rec("link", no, detail))
	}
	cnt := make([]int, total)
	for _, iv := range h.calls() {
		if iv.arg < base || iv.arg >= base+uint64(total) {
			e.rep.viol(fpEvArgs, fmt.Sprintf("link round %d: linked event received argument %d that no Trigger passed", no, iv.arg), e.rec("link", no, detail))
			continue
		}
		cnt[iv.arg-base]++
	}
	pcnt := [2][]int{make([]int, total), make([]int, total)}
	for i, p := range plain {
		for _, iv := range p.calls() {
			if iv.arg >= base && iv.arg < base+uint64(total) {
				pcnt[i][iv.arg-base]++
			}
		}
	}
	overl := 0
	for _, ts := range trigs {
		for _, t := range ts {
			e.c.Count("evaluations", 1)
			possible, certain := false, false
			for i, l := range links {
				if l.target != t.target {
					continue
				}
				last := i == len(links)-1
				if l.call < t.ret && (last || links[i+1].ret > t.call) {
					possible = true
				}
				if l.ret < t.call && (last || links[i+1].call > t.ret) {
					certain = true
				}
			}
			n := cnt[t.arg-base]
			if possible && !certain {
				overl++
			}
			d := map[string]any{"trigger": t, "links": links}
			switch {
			case n > 1:
				e.rep.viol(fpEvLinkTwice, fmt.Sprintf("link round %d: Trigger(%d) of target %d fired the linked event %d times", no, t.arg, t.target, n), e.rec("link", no, d))
			case n == 1 && !possible:
				e.rep.viol(fpEvLinkFormer, fmt.Sprintf("link round %d: Trigger(%d) [%d,%d] of target %d fired the linked event although that target was not the link target at any time during the call", no, t.arg, t.call, t.ret, t.target), e.rec("link", no, d))
			case n == 0 && certain:
				e.rep.viol(fpEvLinkMissed, fmt.Sprintf("link round %d: Trigger(%d) [%d,%d] of the current link target %d did not fire the linked event", no, t.arg, t.call, t.ret, t.target), e.rec("link", no, d))
			}
			if pn := pcnt[t.target][t.arg-base]; pn != 1 {
				fp := fpEvMissed
				if pn > 1 {
					fp = fpEvTwice
				}
				e.rep.viol(fp, fmt.Sprintf("link round %d: the ordinary hook of target %d was invoked %d times by Trigger(%d)", no, t.target, pn, t.arg), e.rec("link", no, d))
			}
		}
	}
	e.c.Count("ev_link_triggers_overlapping_linkto", overl)
	e.c.Count("ev_rounds:link", 1)
	if overl > 0 {
		e.c.Distinct("nontrivial", fmt.Sprintf("ev/link/T%d/L%d/race=%v", nT, len(links), e.race))
	}
}

// ---------------------------------------------------------------- Event (no parameters)

func (e *evEnv) roundEv0(no int) {
	rng := e.c.Rand(fmt.Sprintf("ev/ev0/%d", no))
	nT := 1 + rng.Intn(5)
	per := 1 + rng.Intn(5)
	k := nT * per
	pooled := rng.Intn(3) == 0
	evMax := 0
	var evOpts []event.Option
	if rng.Intn(2) == 0 {
		evMax = 1 + rng.Intn(k+2)
		evOpts = append(evOpts, event.WithMaxTriggerCount(uint64(evMax)))
	}
	ev := event.New(evOpts...)
	type h0 struct {
		n   atomic.Int64
		max int
	}
	nHk := 1 + rng.Intn(3)
	hooks := make([]*h0, nHk)
	var panics atomic.Int64
	for i := range hooks {
		h := &h0{}
		hooks[i] = h
		var opts []event.Option
		if rng.Intn(2) == 0 {
			h.max = 1 + rng.Intn(k+2)
			opts = append(opts, event.WithMaxTriggerCount(uint64(h.max)))
		}
		if pooled {
			opts = append(opts, event.WithWorkerPool(e.pool))
		}
		guard(&panics, func() { ev.Hook(func() { h.n.Add(1) }, opts...) })
	}
	var wg sync.WaitGroup
	start := &barrier{n: int32(nT)}
	for g := 0; g < nT; g++ {
		wg.Add(1)
		go func() {
			defer wg.Done()
			start.wait()
			for i := 0; i < per; i++ {
				guard(&panics, ev.Trigger)
			}
		}()
	}
	wg.Wait()
	if pooled {
		e.drain()
	}
	detail := map[string]any{"trigger_goroutines": nT, "triggers_each": per, "event_max": evMax, "pooled": pooled}
	if p := panics.Load(); p > 0 {
		e.rep.viol(fpEvPanic, fmt.Sprintf("ev0 round %d: %d calls into runtime/event panicked", no, p), e.rec("ev0", no, detail))
	}
	through := k
	if evMax != 0 && evMax < k {
		through = evMax
	}
	for _, h := range hooks {
		e.c.Count("evaluations", 1)
		want := through
		fp := fpEvMissed
		if h.max != 0 && h.max < want {
			want = h.max
			fp = fpEvMaxHook
		} else if evMax != 0 && evMax < k {
			fp = fpEvMaxEvent
		}
		got := int(h.n.Load())
		if got > want && fp == fpEvMissed {
			fp = fpEvTwice
		}
		if got != want {
			e.rep.viol(fp, fmt.Sprintf("ev0 round %d: Event without parameters, %d triggers from %d goroutines, event limit %d, hook limit %d: hook fired %d times, expected %d", no, k, nT, evMax, h.max, got, want), e.rec("ev0", no, detail))
		}
	}
	e.c.Count("ev_max_rounds", 1)
	e.c.Count("ev_rounds:ev0", 1)
	if nT > 1 {
		e.c.Distinct("nontrivial", fmt.Sprintf("ev/ev0/T%d/pooled=%v/race=%v", nT, pooled, e.race))
	}
}

// ---------------------------------------------------------------- Event2

func (e *evEnv) roundEv2(no int) {
	rng := e.c.Rand(fmt.Sprintf("ev/ev2/%d", no))
	nT := 1 + rng.Intn(4)
	m := 3 + rng.Intn(16)
	cycles := 3 + rng.Intn(12)
	total := nT * m
	base := argBase.Add(uint64(total)) - uint64(total)
	ev := event.New2[uint64, uint64]()
	var panics, badArgs atomic.Int64
	mk := func(id int) (*hookRec, func(a, b uint64)) {
		h := newHookRec(id, total+8)
		return h, func(a, b uint64) {
			if b != ^a {
				badArgs.Add(1)
			}
			h.cb(a)
		}
	}
	static := make([]*hookRec, 1+rng.Intn(2))
	for i := range static {
		h, f := mk(i)
		static[i] = h
		guard(&panics, func() { ev.Hook(f) })
	}
	var dyn []*hookRec
	var wg sync.WaitGroup
	start := &barrier{n: int32(nT + 1)}
	for g := 0; g < nT; g++ {
		wg.Add(1)
		go func(g int) {
			defer wg.Done()
			start.wait()
			for i := 0; i < m; i++ {
				a := base + uint64(g*m+i)
				guard(&panics, func() { ev.Trigger(a, ^a) })
			}
		}(g)
	}
	wg.Add(1)
	go func() {
		defer wg.Done()
		start.wait()
		for i := 0; i < cycles; i++ {
			h, f := mk(100 + i)
			dyn = append(dyn, h)
			guard(&panics, func() {
				hk := ev.Hook(f)
				runtime.Gosched()
				hk.Unhook()
			})
		}
	}()
	wg.Wait()
	detail := map[string]any{"trigger_goroutines": nT, "triggers_each": m, "cycles": cycles}
	if p := panics.Load(); p > 0 {
		e.rep.viol(fpEvPanic, fmt.Sprintf("ev2 round %d: %d calls into runtime/event panicked", no, p), e.rec("ev2", no, detail))
	}
	if b := badArgs.Load(); b > 0 {
		e.rep.viol(fpEvArgs, fmt.Sprintf("ev2 round %d: %d invocations received an argument pair no Trigger passed", no, b), e.rec("ev2", no, detail))
	}
	for _, h := range append(append([]*hookRec(nil), static...), dyn...) {
		cnt := make([]int, total)
		for _, iv := range h.calls() {
			if iv.arg >= base && iv.arg < base+uint64(total) {
				cnt[iv.arg-base]++
			} else {
				e.rep.viol(fpEvArgs, fmt.Sprintf("ev2 round %d: argument %d no Trigger passed", no, iv.arg), e.rec("ev2", no, detail))
			}
		}
		for i, n := range cnt {
			e.c.Count("evaluations", 1)
			switch {
			case n > 1:
				e.rep.viol(fpEvTwice, fmt.Sprintf("ev2 round %d: Trigger(%d) invoked hook #%d %d times", no, base+uint64(i), h.id, n), e.rec("ev2", no, detail))
			case n == 0 && h.id < 100:
				e.rep.viol(fpEvMissed, fmt.Sprintf("ev2 round %d: Trigger(%d) did not invoke the static hook #%d", no, base+uint64(i), h.id), e.rec("ev2", no, detail))
			}
		}
	}
	e.c.Count("ev_rounds:ev2", 1)
}
