package main

import (
	"fmt"
	"strconv"
	"strings"

	"github.com/iotaledger/hive.go/runtime/event"
)

// Deterministic single-goroutine scenarios: while a Trigger is walking the hooks, the
// callback of one synchronous hook (the "actor") unhooks itself / the directly following
// hook / a later hook / an earlier hook / hooks a new one / re-links a linked event.
//
// Demanded (statement: every hook that is not yet unhooked is invoked exactly once):
//   - a hook whose Unhook (or the LinkTo that removes it) RETURNED before its own turn in
//     this Trigger is not invoked by it;
//   - every other hook that was attached when the Trigger began is invoked exactly once
//     (a hook whose WithMaxTriggerCount is exhausted in this Trigger: not at all), in
//     attachment order;
//   - the next Trigger invokes exactly the currently hooked ones.
//
// Not demanded: whether a hook attached during the Trigger is invoked by it (at most
// once); and the sub-case "actor unhooks ITSELF first and THEN its direct successor",
// where the unchanged tree still visits the successor (stale next pointer of the removed
// current entry) – counted as ev_reentrant_not_demanded_divergence.
const (
	fpEvReentrant     = "event/hook-unhooked-before-its-turn-called" // Unhook returned during the Trigger before the hook's turn, still invoked
	fpEvReentrantLink = "event/link-removed-before-its-turn-fired"   // LinkTo(other/nil) returned during the target's Trigger before the link's turn, linked event still fired
)

// evAbs hides the arity of Event / Event1 / Event2.
type evAbs struct {
	variant string
	hook    func(cb func(arg uint64), opts ...event.Option) (unhook func())
	trigger func(arg uint64)
	linkTo  func(target *evAbs) // nil unlinks
	raw     any
}

func newEvAbs(variant string, cur *uint64) *evAbs {
	a := &evAbs{variant: variant}
	switch variant {
	case "Event":
		e := event.New()
		a.raw = e
		a.hook = func(cb func(uint64), opts ...event.Option) func() {
			return e.Hook(func() { cb(*cur) }, opts...).Unhook
		}
		a.trigger = func(arg uint64) { e.Trigger() }
		a.linkTo = func(t *evAbs) {
			if t == nil {
				e.LinkTo(nil)
			} else {
				e.LinkTo(t.raw.(*event.Event))
			}
		}
	case "Event1":
		e := event.New1[uint64]()
		a.raw = e
		a.hook = func(cb func(uint64), opts ...event.Option) func() {
			return e.Hook(cb, opts...).Unhook
		}
		a.trigger = func(arg uint64) { e.Trigger(arg) }
		a.linkTo = func(t *evAbs) {
			if t == nil {
				e.LinkTo(nil)
			} else {
				e.LinkTo(t.raw.(*event.Event1[uint64]))
			}
		}
	default:
		e := event.New2[uint64, uint64]()
		a.raw = e
		a.hook = func(cb func(uint64), opts ...event.Option) func() {
			return e.Hook(func(x, y uint64) {
				if y != ^x {
					cb(^uint64(0))
					return
				}
				cb(x)
			}, opts...).Unhook
		}
		a.trigger = func(arg uint64) { e.Trigger(arg, ^arg) }
		a.linkTo = func(t *evAbs) {
			if t == nil {
				e.LinkTo(nil)
			} else {
				e.LinkTo(t.raw.(*event.Event2[uint64, uint64]))
			}
		}
	}
	return a
}

// reScenario: slots 0..N-1 are attached in this order to the target event; slot LinkPos
// (if >= 0) is the hook that LinkTo creates for the linked event, all others are plain
// recording hooks; slot Max (if >= 0) carries WithMaxTriggerCount(1). Actions of the
// actor's callback during the 2nd Trigger: "self", "u<slot>", "new", "link-nil", "link-other".
type reScenario struct {
	Variant string   `json:"variant"`
	N       int      `json:"n"`
	Actor   int      `json:"actor"`
	Actions []string `json:"actions"`
	Max     int      `json:"max"`
	LinkPos int      `json:"link_pos"`
}

func (s reScenario) String() string {
	return fmt.Sprintf("%s with %d hooks, callback of hook #%d does [%s] during Trigger (max-1 hook: #%d, link hook: #%d; -1 = none)", s.Variant, s.N, s.Actor, strings.Join(s.Actions, ", "), s.Max, s.LinkPos)
}

func reScenarios() []reScenario {
	var out []reScenario
	for _, v := range []string{"Event", "Event1", "Event2"} {
		for n := 2; n <= 5; n++ {
			for a := 0; a < n; a++ {
				var acts [][]string
				acts = append(acts, []string{"self"}, []string{"new"})
				for t := 0; t < n; t++ {
					if t == a {
						continue
					}
					u := "u" + strconv.Itoa(t)
					acts = append(acts, []string{u}, []string{"self", u}, []string{u, "self"}, []string{u, "new"}, []string{"new", u})
					for t2 := 0; t2 < n; t2++ {
						if t2 != a && t2 != t {
							acts = append(acts, []string{u, "u" + strconv.Itoa(t2)})
						}
					}
				}
				for _, ac := range acts {
					for m := -1; m < n; m++ {
						out = append(out, reScenario{v, n, a, ac, m, -1})
					}
				}
				// linked event: the link hook sits at slot p of the target
				for p := 0; p < n; p++ {
					if p == a {
						continue
					}
					for _, la := range []string{"link-nil", "link-other"} {
						for _, extra := range [][]string{nil, {"self"}, {"new"}} {
							for m := -1; m < n; m++ {
								if m == p {
									continue
								}
								out = append(out, reScenario{v, n, a, append([]string{la}, extra...), m, p})
								if extra != nil {
									out = append(out, reScenario{v, n, a, append(append([]string{}, extra...), la), m, p})
								}
							}
						}
					}
				}
			}
		}
	}
	return out
}

// runReentrant executes one scenario on the real event package and judges the three
// Triggers (plain, armed, plain) plus, for link-other, one Trigger of the other target.
func (e *evEnv) runReentrant(idx int, s reScenario) {
	var cur uint64
	T := newEvAbs(s.Variant, &cur)
	T2 := newEvAbs(s.Variant, &cur)
	L := newEvAbs(s.Variant, &cur)
	var calls []int // hook ids in invocation order of the current Trigger
	badArg := 0
	unhooks := map[int]func(){}
	armed := false
	nextID := s.N
	var newIDs []int
	record := func(id int) func(uint64) {
		return func(arg uint64) {
			if arg != cur {
				badArg++
			}
			calls = append(calls, id)
		}
	}
	attachNew := func() {
		id := nextID
		nextID++
		newIDs = append(newIDs, id)
		unhooks[id] = T.hook(record(id))
	}
	act := func() {
		for _, a := range s.Actions {
			switch {
			case a == "self":
				unhooks[s.Actor]()
			case a == "new":
				attachNew()
			case a == "link-nil":
				L.linkTo(nil)
			case a == "link-other":
				L.linkTo(T2)
			default:
				t, _ := strconv.Atoi(a[1:])
				unhooks[t]()
			}
		}
	}
	var panicked any
	func() {
		defer func() { panicked = recover() }()
		L.hook(record(-2)) // the linked event's own hook; recorded under the link slot
		for i := 0; i < s.N; i++ {
			i := i
			var opts []event.Option
			if i == s.Max {
				opts = append(opts, event.WithMaxTriggerCount(1))
			}
			switch {
			case i == s.LinkPos:
				L.linkTo(T)
			case i == s.Actor:
				rec := record(i)
				unhooks[i] = T.hook(func(arg uint64) {
					rec(arg)
					if armed {
						act()
					}
				}, opts...)
			default:
				unhooks[i] = T.hook(record(i), opts...)
			}
		}
	}()

	// ---- specification state
	live := map[int]bool{}
	maxLeft := map[int]int{}
	order := []int{}
	for i := 0; i < s.N; i++ {
		live[i] = true
		order = append(order, i)
		maxLeft[i] = -1
	}
	if s.Max >= 0 {
		maxLeft[s.Max] = 1
	}
	linkedTo := 0 // 0 = T (if LinkPos >= 0), 2 = T2, -1 = nothing
	if s.LinkPos < 0 {
		linkedTo = -1
	}
	rec := func(trig int) replayRec {
		return e.rec("reentrant", idx, map[string]any{"scenario": s, "trigger_no": trig, "calls_in_order": append([]int(nil), calls...)})
	}
	judge := func(trig int, isArmed bool) {
		// expected count per id: 0, 1, or -1 (not demanded)
		expect := map[int]int{}
		start := append([]int(nil), order...)
		selfDeleted, staleSucc := false, -100
		for pos, id := range start {
			switch {
			case !live[id]:
				if _, set := expect[id]; !set {
					expect[id] = 0
				}
			case maxLeft[id] == 0:
				expect[id] = 0
				live[id] = false
			default:
				expect[id] = 1
				if maxLeft[id] > 0 {
					maxLeft[id]--
				}
				if isArmed && id == s.Actor {
					for _, a := range s.Actions {
						switch {
						case a == "self":
							live[id] = false
							selfDeleted = true
							for _, nx := range start[pos+1:] {
								if live[nx] {
									staleSucc = nx
									break
								}
							}
						case a == "new":
							// handled below: attached during the Trigger, not demanded
						case a == "link-nil", a == "link-other":
							if live[s.LinkPos] {
								live[s.LinkPos] = false
								if selfDeleted && s.LinkPos == staleSucc {
									expect[s.LinkPos] = -1
								}
							}
							if a == "link-nil" {
								linkedTo = -1
							} else {
								linkedTo = 2
							}
						default:
							t, _ := strconv.Atoi(a[1:])
							if live[t] {
								live[t] = false
								if selfDeleted && t == staleSucc {
									expect[t] = -1 // unchanged tree: the removed current entry still points at it
								}
							}
						}
					}
				}
			}
		}
		// hooks attached during this Trigger: not demanded (at most once)
		for _, id := range newIDs {
			found := false
			for _, o := range order {
				if o == id {
					found = true
				}
			}
			if !found {
				order = append(order, id)
				live[id] = true
				maxLeft[id] = -1
				expect[id] = -1
			}
		}
		got := map[int]int{}
		for _, id := range calls {
			if id == -2 {
				id = s.LinkPos
			}
			got[id]++
		}
		name := func(id int) string {
			if id == s.LinkPos {
				return "the linked event (link hook at slot #" + strconv.Itoa(id) + ")"
			}
			return "hook #" + strconv.Itoa(id)
		}
		for id, want := range expect {
			e.c.Count("evaluations", 1)
			g := got[id]
			switch {
			case g > 1:
				e.rep.viol(fpEvTwice, fmt.Sprintf("scenario %d (%s): Trigger no. %d invoked %s %d times", idx, s, trig, name(id), g), rec(trig))
			case want == -1:
				if g != 0 && !live[id] {
					e.c.Count("ev_reentrant_not_demanded_divergence", 1)
				}
			case want == 0 && g > 0:
				fp := fpEvReentrant
				if id == s.LinkPos {
					fp = fpEvReentrantLink
				}
				if !isArmed {
					fp = fpEvUnhooked
				}
				e.rep.viol(fp, fmt.Sprintf("scenario %d (%s): Trigger no. %d invoked %s although its removal had returned before its turn (calls in order: %v)", idx, s, trig, name(id), calls), rec(trig))
			case want == 1 && g == 0:
				e.rep.viol(fpEvMissed, fmt.Sprintf("scenario %d (%s): Trigger no. %d did not invoke %s, which was attached and not removed before its turn (calls in order: %v)", idx, s, trig, name(id), calls), rec(trig))
			}
		}
		for id := range got {
			if _, ok := expect[id]; !ok {
				e.rep.viol(fpEvUnhooked, fmt.Sprintf("scenario %d (%s): Trigger no. %d invoked %s, which is not attached", idx, s, trig, name(id)), rec(trig))
			}
		}
		// attachment order among the invoked hooks
		last := -1
		for _, id := range calls {
			if id == -2 {
				id = s.LinkPos
			}
			if id < last {
				e.rep.viol(fpEvOrder, fmt.Sprintf("scenario %d (%s): Trigger no. %d invoked the hooks in the order %v", idx, s, trig, calls), rec(trig))
				break
			}
			last = id
		}
	}
	trig := func(no int, isArmed bool) {
		calls = calls[:0]
		cur = argBase.Add(1)
		armed = isArmed
		func() {
			defer func() {
				if p := recover(); p != nil {
					panicked = p
				}
			}()
			T.trigger(cur)
		}()
		armed = false
		judge(no, isArmed)
	}
	if panicked == nil {
		trig(1, false)
		trig(2, true)
		trig(3, false)
	}
	if panicked == nil && s.LinkPos >= 0 {
		// the other target: fires the linked event iff it is the current link target
		calls = calls[:0]
		cur = argBase.Add(1)
		func() {
			defer func() {
				if p := recover(); p != nil {
					panicked = p
				}
			}()
			T2.trigger(cur)
		}()
		e.c.Count("evaluations", 1)
		want := 0
		if linkedTo == 2 {
			want = 1
		}
		if len(calls) != want {
			fp := fpEvLinkMissed
			if len(calls) > want {
				fp = fpEvLinkFormer
				if want == 1 {
					fp = fpEvLinkTwice
				}
			}
			e.rep.viol(fp, fmt.Sprintf("scenario %d (%s): afterwards a Trigger of the other target fired the linked event %d times, expected %d", idx, s, len(calls), want), rec(4))
		}
	}
	if panicked != nil {
		e.rep.viol(fpEvPanic, fmt.Sprintf("scenario %d (%s): a call into runtime/event panicked", idx, s), rec(0))
	}
	if badArg > 0 {
		e.rep.viol(fpEvArgs, fmt.Sprintf("scenario %d (%s): %d invocations received arguments other than those of the running Trigger", idx, s, badArg), rec(0))
	}
	e.c.Count("ev_reentrant_scenarios", 1)
	e.c.Count("ev_reentrant_scenarios:"+s.Actions[0][:1], 1)
}

func (e *evEnv) reentrantAll(only int) {
	sc := reScenarios()
	for i, s := range sc {
		if only >= 0 && i != only {
			continue
		}
		e.runReentrant(i, s)
		if i%97 == 0 {
			e.c.Distinct("nontrivial", "ev/reentrant/"+s.Variant+"/"+strings.Join(s.Actions, ","))
		}
	}
}
