package main

import (
	"fmt"
	"runtime"
	"sync"
	"sync/atomic"

	"github.com/iotaledger/hive.go/runtime/promise"
	"verif/harness/internal/vf"
)

// Fingerprints of the promise clause.
const (
	fpPrLost    = "promise/callback-lost"             // registered, never unsubscribed, did not run
	fpPrTwice   = "promise/callback-ran-twice"        // ran more than once
	fpPrValue   = "promise/callback-wrong-value"      // ran with a value other than the one of the successful Trigger
	fpPrUnsub   = "promise/unsubscribed-callback-ran" // unsubscribe returned before any Trigger was invoked, still ran
	fpPrTrigger = "promise/trigger-true-count"        // Trigger returned true not exactly once
	fpPrPanic   = "promise/panic"                     // a call into runtime/promise panicked (the callback it owed was not delivered)
	fpPrEarly   = "promise/callback-before-trigger"   // callback ran before any Trigger was invoked
)

type prCB struct {
	phase        string // before | during | after
	regCall      uint64
	regRet       uint64
	unsub        bool
	unsubCall    uint64
	unsubRet     uint64
	n            atomic.Int64
	val          atomic.Uint64
	invTick      atomic.Uint64
	panicked     bool
	unsubscribeF func()
}

func (p *prCB) run(v uint64) {
	p.invTick.Store(tick())
	p.val.Store(v)
	p.n.Add(1)
}

// prEvent abstracts promise.Event (no value) and promise.Event1[uint64].
type prEvent interface {
	trigger(v uint64) bool
	onTrigger(cb *prCB) func()
}

type prE0 struct{ e *promise.Event }

func (p prE0) trigger(uint64) bool { return p.e.Trigger() }
func (p prE0) onTrigger(cb *prCB) func() {
	return p.e.OnTrigger(func() { cb.run(0) })
}

type prE1 struct{ e *promise.Event1[uint64] }

func (p prE1) trigger(v uint64) bool { return p.e.Trigger(v) }
func (p prE1) onTrigger(cb *prCB) func() {
	return p.e.OnTrigger(func(v uint64) { cb.run(v) })
}

func prChild(c *vf.Ctx, part int, race bool, only string, onlyNo int) {
	rep := newReporter(c)
	rounds := c.Pick(30000, 100000)
	if race {
		rounds = c.Pick(8000, 25000)
	}
	if only != "" {
		for k := 0; k < 200; k++ {
			prRound(c, rep, onlyNo, race)
		}
		return
	}
	if part == 0 {
		prRedundantAll(c, rep, race)
	}
	for r := 0; r < rounds; r++ {
		prRound(c, rep, part*1000000+r, race)
	}
}

func prRound(c *vf.Ctx, rep *reporter, no int, race bool) {
	rng := c.Rand(fmt.Sprintf("pr/%d", no))
	withValue := rng.Intn(4) != 0
	nTrig := 1 + rng.Intn(3)
	nReg := 1 + rng.Intn(4)
	per := 1 + rng.Intn(10)
	nBefore := rng.Intn(4)
	nAfter := rng.Intn(3)
	// each Trigger goroutine waits until this many registrations have been started, so
	// that Trigger lands among the concurrent OnTrigger calls (progress-, not time-based)
	trigAt := make([]int64, nTrig)
	for g := range trigAt {
		trigAt[g] = int64(rng.Intn(nReg*per + 1))
	}
	var progress atomic.Int64
	var ev prEvent
	if withValue {
		ev = prE1{promise.NewEvent1[uint64]()}
	} else {
		ev = prE0{promise.NewEvent()}
	}
	var panics atomic.Int64
	register := func(cb *prCB, unsubNow bool) {
		cb.regCall = tick()
		func() {
			defer func() {
				if p := recover(); p != nil {
					panics.Add(1)
					cb.panicked = true
				}
			}()
			cb.unsubscribeF = ev.onTrigger(cb)
		}()
		cb.regRet = tick()
		if unsubNow && cb.unsubscribeF != nil {
			cb.unsub = true
			uc := tick()
			guard(&panics, cb.unsubscribeF)
			cb.unsubRet = tick()
			cb.unsubCall = uc
			if uc%2 == 0 {
				guard(&panics, cb.unsubscribeF) // repeated unsubscribe: must not affect any other callback
			}
		}
	}
	var cbs []*prCB
	var mu sync.Mutex
	add := func(phase string) *prCB {
		cb := &prCB{phase: phase}
		mu.Lock()
		cbs = append(cbs, cb)
		mu.Unlock()
		return cb
	}
	// decisions are drawn up-front so that the round is a function of the seed
	unsubPlan := make([][]bool, nReg)
	for g := range unsubPlan {
		for i := 0; i < per; i++ {
			unsubPlan[g] = append(unsubPlan[g], rng.Intn(5) == 0)
		}
	}
	for i := 0; i < nBefore; i++ {
		register(add("before"), rng.Intn(4) == 0)
	}
	type trig struct {
		val, call, ret uint64
		won            bool
	}
	trigs := make([]trig, nTrig)
	var wg sync.WaitGroup
	start := &barrier{n: int32(nTrig + nReg)}
	for g := 0; g < nTrig; g++ {
		wg.Add(1)
		go func(g int) {
			defer wg.Done()
			start.wait()
			for progress.Load() < trigAt[g] {
				runtime.Gosched()
			}
			t := &trigs[g]
			t.val = uint64(no)<<8 | uint64(g+1)
			t.call = tick()
			guard(&panics, func() { t.won = ev.trigger(t.val) })
			t.ret = tick()
		}(g)
	}
	for g := 0; g < nReg; g++ {
		wg.Add(1)
		go func(g int) {
			defer wg.Done()
			start.wait()
			for i := 0; i < per; i++ {
				cb := add("during")
				progress.Add(1)
				register(cb, unsubPlan[g][i])
			}
		}(g)
	}
	wg.Wait()
	for i := 0; i < nAfter; i++ {
		register(add("after"), false)
	}

	detail := map[string]any{"with_value": withValue, "trigger_goroutines": nTrig, "registrar_goroutines": nReg, "callbacks_each": per, "before": nBefore, "after": nAfter}
	r := replayRec{Kind: "conc", Child: "promise", Round: "pr", RoundNo: no, Seed: c.Seed, Race: race, Detail: detail}
	if p := panics.Load(); p > 0 {
		rep.viol(fpPrPanic, fmt.Sprintf("promise round %d: %d calls into runtime/promise panicked", no, p), r)
	}
	wins := 0
	var winVal uint64
	firstTrigCall := ^uint64(0)
	for _, t := range trigs {
		if t.won {
			wins++
			winVal = t.val
		}
		if t.call < firstTrigCall {
			firstTrigCall = t.call
		}
	}
	c.Count("evaluations", 1)
	if wins != 1 {
		rep.viol(fpPrTrigger, fmt.Sprintf("promise round %d: %d concurrent Trigger calls, %d returned true", no, nTrig, wins), r)
	}
	during := 0
	for _, cb := range cbs {
		c.Count("evaluations", 1)
		n := cb.n.Load()
		overl := false
		for _, t := range trigs {
			if cb.regCall < t.ret && cb.regRet > t.call {
				overl = true
			}
		}
		if overl {
			during++
		}
		if n > 0 && cb.invTick.Load() < firstTrigCall {
			rep.viol(fpPrEarly, fmt.Sprintf("promise round %d: a callback ran at tick %d before the first Trigger was invoked (tick %d)", no, cb.invTick.Load(), firstTrigCall), r)
		}
		switch {
		case n > 1:
			rep.viol(fpPrTwice, fmt.Sprintf("promise round %d: a callback registered %s Trigger ran %d times", no, cb.phase, n), r)
		case cb.unsub:
			if n == 1 && cb.unsubRet < firstTrigCall {
				rep.viol(fpPrUnsub, fmt.Sprintf("promise round %d: unsubscribe returned at tick %d, the first Trigger was invoked at %d, the callback still ran", no, cb.unsubRet, firstTrigCall), r)
			}
		case n == 0:
			rep.viol(fpPrLost, fmt.Sprintf("promise round %d: a callback registered %s Trigger (OnTrigger [%d,%d], panicked=%v) never ran; Trigger calls: %v", no, cb.phase, cb.regCall, cb.regRet, cb.panicked, trigs), r)
		}
		if n >= 1 && withValue && wins == 1 && cb.val.Load() != winVal {
			rep.viol(fpPrValue, fmt.Sprintf("promise round %d: callback ran with %d, the successful Trigger passed %d", no, cb.val.Load(), winVal), r)
		}
	}
	c.Count("pr_callbacks_registered_during_trigger", during)
	c.Count("pr_rounds", 1)
	if during > 0 {
		c.Distinct("nontrivial", fmt.Sprintf("pr/value=%v/T%d/R%d/race=%v", withValue, nTrig, nReg, race))
		if during > 2 && no%1000000 < 50 && c.WantSample() {
			c.Sample(map[string]any{"kind": "promise round", "round": no, "race_build": race, "config": detail, "callbacks": len(cbs), "registered_while_a_trigger_was_in_flight": during, "triggers_returning_true": wins})
		}
	}
}
