package main

import (
	"fmt"
	"math/rand"

	"github.com/iotaledger/hive.go/runtime/event"
	"github.com/iotaledger/hive.go/runtime/promise"
)

// Discipline 3: user code that panics (the caller of Trigger / OnTrigger / Wait recovers),
// then the same object is used again.
//
// runtime/event, demanded:
//   - the panicking Trigger invoked every hook AHEAD of the panicking one exactly once, in
//     order (the statement's exactly-once for hooks attached before the call began);
//   - the call counts as a trigger of a limited event (the tree counts before it walks);
//   - every later Trigger returns (no lock left held – runtime dead-lock detector), invokes
//     every attached hook exactly once in attachment order, limited hooks within their budget;
//     Hook / Unhook / LinkTo afterwards work as ever.
// Not demanded (c.Note + counters): hooks BEHIND the panicking one are skipped by that
// Trigger on the unchanged tree (0 or 1 invocations accepted), and whether that skipped
// visit uses up budget of a limited hook (both accepted).

type pHook struct {
	id     int
	ev     *pEvent
	limit  int
	lo, hi int // visits that used up budget: at least / at most (they differ for visits a panic cut short)
	live   bool
	link   *pEvent
	actor  bool
	unhook func()
}

type pEvent struct {
	name   string
	limit  int
	calls  int
	hooks  []*pHook
	real   *evN
	preHit int
}

const (
	wantAny  = -1
	wantZero = 0
	wantOne  = 1
)

func (d *discEnv) casePanicEv(no int, rng *rand.Rand) {
	arity := []int{0, 1, 1, 2, 2, 3, 9}[rng.Intn(7)]
	nT := 2 + rng.Intn(4)
	withL := rng.Intn(5) < 2
	linkPos := rng.Intn(nT + 1)
	nL := 1 + rng.Intn(2)
	tLimit := []int{0, 0, 0, 2, 3, 5}[rng.Intn(6)]
	nPlain := nT
	if withL {
		nPlain += nL
	}
	limited, hLimit := -1, 0
	if rng.Intn(2) == 0 {
		limited, hLimit = rng.Intn(nPlain), 1+rng.Intn(3)
	}
	actor := rng.Intn(nPlain)
	modes := []string{"hook", "hook", "hook", "unhook-self-then-panic", "hook-new-then-panic"}
	if arity <= 2 {
		modes = append(modes, "pre-event", "pre-hook")
	}
	mode := modes[rng.Intn(len(modes))]
	preAt := 1 + rng.Intn(nT)
	const rounds = 4
	panicAt := 1 + rng.Intn(rounds)
	cfg := map[string]any{"arity": arity, "hooks_on_T": nT, "linked_event": withL, "link_slot": linkPos, "hooks_on_L": nL, "limit_T": tLimit,
		"limited_hook": limited, "hook_limit": hLimit, "panicking_hook": actor, "mode": mode, "event_pretrigger_panics_at_call": preAt, "panicking_trigger": panicAt}
	descr := fmt.Sprintf("Event%s T (limit %d) with %d in-place hooks", arityName(arity), tLimit, nT)
	if withL {
		descr += fmt.Sprintf(", event L (%d hooks) linked to T after %d of them", nL, linkPos)
	}
	switch mode {
	case "pre-event":
		descr += fmt.Sprintf("; the pre-trigger function of T panics at its call no. %d during Trigger no. %d", preAt, panicAt)
	case "pre-hook":
		descr += fmt.Sprintf("; the pre-trigger function of hook #%d panics during Trigger no. %d", actor, panicAt)
	default:
		descr += fmt.Sprintf("; the callback of hook #%d panics during Trigger no. %d (%s)", actor, panicAt, mode)
	}
	descr += fmt.Sprintf("; hook #%d limited to %d (-1 = none)", limited, hLimit)

	// every case runs twice: first as a control in which nobody panics (panicAt = 0; the callback still
	// unhooks itself / hooks a new hook at the same moment), then armed; a
	// miss behind the recovered panic gets the fingerprint of this family only if the control was clean
	armedAt := panicAt
	controlClean := true
	runOnce := func(panicAt int, control bool) (violations int) {
		report := func(fp, what string, detail any) {
			violations++
			d.viol(fp, what, detail)
		}
		var cur uint64
		mT := &pEvent{name: "T", limit: tLimit}
		mL := &pEvent{name: "L"}
		var plain []*pHook
		type inv struct {
			h   *pHook
			arg uint64
		}
		var log []inv
		armed := false
		optsOf := func(n int) []event.Option {
			if n > 0 {
				return []event.Option{event.WithMaxTriggerCount(uint64(n))}
			}
			return nil
		}
		var panicked any
		var addPlain func(e *pEvent, extra ...event.Option) *pHook
		addPlain = func(e *pEvent, extra ...event.Option) *pHook {
			h := &pHook{id: len(plain), ev: e, live: true}
			if h.id == limited {
				h.limit = hLimit
			}
			h.actor = h.id == actor
			plain = append(plain, h)
			e.hooks = append(e.hooks, h)
			opts := append(optsOf(h.limit), extra...)
			if h.actor && mode == "pre-hook" {
				opts = append(opts, event.WithPreTriggerFunc(mkPre(arity, func() {
					if armed && !control {
						armed = false
						panic(discPanic{"pre-hook"})
					}
				})))
			}
			h.unhook, _ = e.real.hook(func(arg uint64) {
				log = append(log, inv{h, arg})
				if h.actor && armed && mode != "pre-hook" && mode != "pre-event" {
					armed = false
					switch mode {
					case "unhook-self-then-panic":
						h.unhook()
					case "hook-new-then-panic":
						addPlain(h.ev)
					}
					if !control {
						panic(discPanic{mode})
					}
				}
			}, opts...)
			return h
		}
		preCalls := 0
		func() {
			defer func() { panicked = recover() }()
			tOpts := optsOf(tLimit)
			if mode == "pre-event" {
				tOpts = append(tOpts, event.WithPreTriggerFunc(mkPre(arity, func() {
					if armed && !control {
						preCalls++
						if preCalls == preAt {
							armed = false
							panic(discPanic{"pre-event"})
						}
					}
				})))
			}
			mT.real = newEvN(arity, &cur, tOpts...)
			mL.real = newEvN(arity, &cur)
			if withL {
				for i := 0; i < nL; i++ {
					addPlain(mL)
				}
			}
			for i := 0; i <= nT; i++ {
				if withL && i == linkPos {
					mT.hooks = append(mT.hooks, &pHook{id: -1, ev: mT, live: true, link: mL})
					mL.real.linkTo(mT.real)
				}
				if i < nT {
					addPlain(mT)
				}
			}
		}()
		if panicked != nil {
			report(fpEvPanic, descr+": building the scenario panicked: "+fmt.Sprint(panicked), cfg)
			return
		}

		// ---- model of one Trigger; want[h] for this call; returns true when user code panics
		type verdict struct {
			want  map[*pHook]int
			order []*pHook
		}
		var mArmed, exhaustionSeen bool
		var mPre int
		var mTrigger func(e *pEvent, v *verdict) bool
		skipRest := func(e *pEvent, from int, v *verdict) {
			for _, h := range e.hooks[from:] {
				if !h.live {
					continue
				}
				h.hi++
				if h.link != nil {
					for _, lh := range h.link.hooks {
						if lh.live {
							lh.hi++
							v.want[lh] = wantAny
						}
					}
					continue
				}
				v.want[h] = wantAny
			}
		}
		mTrigger = func(e *pEvent, v *verdict) bool {
			e.calls++
			if e.limit > 0 && e.calls > e.limit {
				return false
			}
			n := len(e.hooks)
			for i := 0; i < n; i++ {
				h := e.hooks[i]
				if !h.live {
					continue
				}
				h.lo++
				h.hi++
				if h.limit > 0 {
					// lo == hi until a panic cut a visit short; afterwards only what both readings agree on is demanded
					okLo, okHi := h.lo <= h.limit, h.hi <= h.limit
					if !okHi {
						exhaustionSeen = true // from here on a miss may stem from how exhausted hooks are detached, not from the panic
					}
					switch {
					case !okLo:
						h.live = false
						continue
					case !okHi:
						v.want[h] = wantAny
					}
				}
				if mArmed && !control && mode == "pre-event" && e == mT {
					mPre++
					if mPre == preAt {
						mArmed = false
						v.want[h] = wantAny // on the tree: its budget is used, it is not invoked
						h.lo--
						if h.link != nil {
							for _, lh := range h.link.hooks {
								lh.hi++
								v.want[lh] = wantAny
							}
						}
						skipRest(e, i+1, v)
						return true
					}
				}
				if mArmed && !control && mode == "pre-hook" && h.actor {
					mArmed = false
					v.want[h] = wantAny
					h.lo--
					skipRest(e, i+1, v)
					return true
				}
				if h.link != nil {
					if mTrigger(h.link, v) {
						skipRest(e, i+1, v)
						return true
					}
					continue
				}
				if _, set := v.want[h]; !set {
					v.want[h] = wantOne
				}
				v.order = append(v.order, h)
				if h.actor && mArmed && mode != "pre-hook" && mode != "pre-event" {
					mArmed = false
					switch mode {
					case "unhook-self-then-panic":
						h.live = false
					case "hook-new-then-panic":
						// mirrored below, when the real callback has attached it: plain[len-1]
					}
					if !control {
						skipRest(e, i+1, v)
						return true
					}
				}
			}
			return false
		}

		// ---- one judged Trigger of T
		skippedSeen := false
		trig := func(no int, what string, arm bool) {
			arg := argBase.Add(1)
			cur = arg
			log = log[:0]
			nBefore := len(plain)
			armed, mArmed, preCalls, mPre = arm, arm, 0, 0
			var p any
			func() {
				defer func() { p = recover() }()
				mT.real.trigger(arg)
			}()
			armed = false
			v := &verdict{want: map[*pHook]int{}}
			wantPanic := mTrigger(mT, v)
			mArmed = false
			for _, h := range plain[nBefore:] { // hooks the panicking callback attached: not visited by this call on the tree
				v.want[h] = wantAny
			}
			if len(plain) > nBefore {
				// keep the model's hook list in the order of attachment (addPlain appended it already)
			}
			if p != nil {
				if _, ours := p.(discPanic); !ours {
					report(fpEvPanic, fmt.Sprintf("%s: Trigger no. %d (%s) panicked inside runtime/event: %v", descr, no, what, p), cfg)
					return
				}
				if mode == "pre-event" || mode == "pre-hook" {
					d.count("disc_panic_pretrigger_panicked", 1)
				} else {
					d.count("disc_panic_hooks_panicked", 1)
				}
			}
			if wantPanic && p == nil {
				d.count("disc_panic_expected_but_not_propagated(not demanded)", 1)
			}
			got := map[*pHook]int{}
			for _, r := range log {
				if r.arg != arg {
					report(fpEvArgs, fmt.Sprintf("%s: Trigger no. %d (%s): hook #%d received arguments of another call", descr, no, what, r.h.id), cfg)
				}
				got[r.h]++
			}
			for _, h := range plain {
				d.count("evaluations", 1)
				w, demanded := v.want[h]
				if !demanded {
					w = wantZero
				}
				g := got[h]
				name := fmt.Sprintf("hook #%d (on %s, limit %d)", h.id, h.ev.name, h.limit)
				after := ""
				if !arm && panicAt > 0 && no > panicAt {
					after = " after the recovered panic of Trigger no. " + fmt.Sprint(panicAt)
				}
				switch {
				case g > 1:
					report(fpEvTwice, fmt.Sprintf("%s: Trigger no. %d (%s) invoked %s %d times", descr, no, what, name, g), cfg)
				case w == wantAny:
					if wantPanic {
						skippedSeen = true
						if g == 0 {
							d.count("disc_panic_hooks_behind_the_panic_skipped_by_that_trigger(not demanded)", 1)
						} else {
							d.count("disc_panic_hooks_behind_the_panic_still_invoked(not demanded)", 1)
						}
					}
				case w == wantOne && g == 0:
					fp := fpEvMissed
					switch {
					case after != "" && controlClean && !exhaustionSeen:
						fp = fpPanicEvUse
					case h.limit > 0:
						fp = fpEvMaxHook
					case h.ev == mL:
						fp = fpEvLinkMissed
					}
					report(fp, fmt.Sprintf("%s: Trigger no. %d (%s)%s did not invoke %s, which is attached, within its budget and not behind the panicking hook", descr, no, what, after, name), cfg)
				case w == wantZero && g > 0:
					fp := fpEvUnhooked
					switch {
					case h.limit > 0 && h.hi > h.limit:
						fp = fpEvMaxHook
					case mT.limit > 0 && mT.calls > mT.limit:
						fp = fpEvMaxEvent
					case h.ev == mL:
						fp = fpEvLinkFormer
					}
					report(fp, fmt.Sprintf("%s: Trigger no. %d (%s)%s invoked %s, which is detached, exhausted, or whose event has used up its limit (T: call %d of limit %d)", descr, no, what, after, name, mT.calls, mT.limit), cfg)
				}
			}
			// attachment order per event
			last := map[*pEvent]int{}
			for _, r := range log {
				if prev, ok := last[r.h.ev]; ok && prev > r.h.id {
					report(fpEvOrder, fmt.Sprintf("%s: Trigger no. %d (%s): hook #%d ran before hook #%d", descr, no, what, prev, r.h.id), cfg)
					break
				}
				last[r.h.ev] = r.h.id
			}
		}

		func() {
			defer func() { panicked = recover() }()
			for r := 1; r <= rounds; r++ {
				what := "no user code panics"
				if r == panicAt {
					what = "user code panics, the caller recovers"
				}
				trig(r, what, r == panicAt || (control && r == armedAt))
			}
			// ---- further use: Hook, Unhook, LinkTo and Trigger keep working
			h := addPlain(mT)
			trig(rounds+1, "after Hook of a new hook", false)
			h.unhook()
			h.live = false
			if withL {
				mL.real.linkTo(nil)
				for _, x := range mT.hooks {
					if x.link != nil {
						x.live = false
					}
				}
				trig(rounds+2, "after Unhook of the new hook and L.LinkTo(nil)", false)
				mL.real.linkTo(mT.real)
				mT.hooks = append(mT.hooks, &pHook{id: -1, ev: mT, live: true, link: mL})
				trig(rounds+3, "after L.LinkTo(T) again", false)
			} else {
				trig(rounds+2, "after Unhook of the new hook", false)
			}
			switch {
			case panicAt == 0:
				d.count("disc_panic_control_runs_without_panic", 1)
			case mode == "pre-event" || mode == "pre-hook":
				d.count("disc_panic_pretrigger_panicked_then_event_used", 1)
			default:
				d.count("disc_panic_hooks_panicked_then_event_used", 1)
			}
			if mT.real.q.TriggerCount() == mT.calls {
				d.count("disc_panic_trigger_count_includes_the_panicked_trigger", 1)
			} else {
				d.count("disc_panic_trigger_count_differs_from_calls(not demanded)", 1)
			}
		}()
		if panicked != nil {
			report(fpEvPanic, descr+": a call into runtime/event panicked: "+fmt.Sprint(panicked), cfg)
		}
		if skippedSeen && panicAt > 0 {
			d.noteOnce("panic-ev-skip", "runtime/event: when a hook or pre-trigger function panics (recovered by the Trigger caller) the hooks behind it are not invoked by that Trigger on the unchanged tree; the event, its counters and all hooks stay usable. Outside the statement; counted as disc_panic_hooks_behind_the_panic_skipped_by_that_trigger")
		}
		return violations
	}
	controlClean = runOnce(0, true) == 0
	runOnce(armedAt, false)
}

// ---------------------------------------------------------------- promise

// casePanicPr: one callback panics while Trigger (or an inline OnTrigger) runs it; the
// caller recovers. Demanded: nobody ever runs twice, every later call returns, a callback
// registered afterwards runs exactly once by the end of the history (with a value that was
// passed to a Trigger), a later Trigger runs nothing again. Not demanded: the callbacks
// that had not run yet when the panic unwound Trigger are lost on the unchanged tree (the
// callback set was already taken out of the event) – counted and noted.
func (d *discEnv) casePanicPr(no int, rng *rand.Rand) {
	withValue := rng.Intn(3) != 0
	k := 1 + rng.Intn(5)
	bad := rng.Intn(k + 1) // == k: none of the early ones; then the first late one panics
	nAfter := 1 + rng.Intn(3)
	badLate := rng.Intn(nAfter)
	detail := map[string]any{"with_value": withValue, "callbacks_before": k, "panicking_before": bad, "callbacks_after": nAfter, "panicking_after": badLate}
	descr := fmt.Sprintf("promise event (value %v): %d callbacks registered, no. %d panics when Trigger runs it (== %d: none); then %d registered afterwards of which no. %d panics inline", withValue, k, bad, k, nAfter, badLate)

	var e0 *promise.Event
	var e1 *promise.Event1[uint64]
	if withValue {
		e1 = promise.NewEvent1[uint64]()
	} else {
		e0 = promise.NewEvent()
	}
	type cbS struct {
		ran   int
		val   uint64
		panic bool
	}
	v := argBase.Add(1)
	onTrigger := func(c *cbS) {
		f := func(val uint64) {
			c.ran++
			c.val = val
			if c.panic && c.ran == 1 {
				panic(discPanic{"promise callback"})
			}
		}
		if withValue {
			e1.OnTrigger(f)
		} else {
			e0.OnTrigger(func() { f(v) })
		}
	}
	trigger := func(val uint64) bool {
		if withValue {
			return e1.Trigger(val)
		}
		return e0.Trigger()
	}
	guarded := func(f func()) (ours bool, foreign any) {
		defer func() {
			if p := recover(); p != nil {
				if _, ok := p.(discPanic); ok {
					ours = true
				} else {
					foreign = p
				}
			}
		}()
		f()
		return
	}
	var early, late []*cbS
	var foreign any
	step := func(f func()) bool {
		ours, fo := guarded(f)
		if fo != nil && foreign == nil {
			foreign = fo
		}
		return ours
	}
	for i := 0; i < k; i++ {
		c := &cbS{panic: i == bad}
		early = append(early, c)
		step(func() { onTrigger(c) })
	}
	first := false
	pan := step(func() { first = trigger(v) })
	if pan {
		d.count("disc_panic_promise_callbacks_panicked", 1)
	} else if !first {
		d.viol(fpPrTrigger, descr+": the first Trigger returned false", detail)
	}
	second := false
	step(func() { second = trigger(v + 1) })
	if second && !pan {
		d.viol(fpPrTrigger, descr+": the second Trigger returned true as well", detail)
	}
	for i := 0; i < nAfter; i++ {
		c := &cbS{panic: i == badLate}
		late = append(late, c)
		if step(func() { onTrigger(c) }) {
			d.count("disc_panic_promise_callbacks_panicked", 1)
		}
	}
	step(func() { trigger(v + 2) })
	last := &cbS{}
	step(func() { onTrigger(last) })
	late = append(late, last)
	d.count("disc_panic_promise_callbacks_panicked_then_event_used", 1)

	if foreign != nil {
		d.viol(fpPrPanic, descr+": a call into runtime/promise panicked: "+fmt.Sprint(foreign), detail)
		return
	}
	lost := 0
	for i, c := range early {
		d.count("evaluations", 1)
		switch {
		case c.ran > 1:
			d.viol(fpPrTwice, fmt.Sprintf("%s: callback no. %d ran %d times", descr, i, c.ran), detail)
		case c.ran == 0 && !pan:
			d.viol(fpPrLost, fmt.Sprintf("%s: callback no. %d never ran although no callback panicked during Trigger", descr, i), detail)
		case c.ran == 0:
			lost++
		}
		if c.ran > 0 && withValue && c.val != v && !(pan && (c.val == v+1 || c.val == v+2)) {
			d.viol(fpPrValue, fmt.Sprintf("%s: callback no. %d ran with %d, Trigger passed %d", descr, i, c.val, v), detail)
		}
	}
	if lost > 0 {
		d.count("disc_panic_promise_callbacks_lost_behind_a_panicking_one(not demanded)", lost)
		d.noteOnce("panic-pr-lost", "runtime/promise: when a callback panics inside Trigger (recovered by the caller) the callbacks that had not run yet never run on the unchanged tree (the callback set was already detached from the event); nobody runs twice, later registrations run inline. Outside the statement; counted as disc_panic_promise_callbacks_lost_behind_a_panicking_one")
	}
	for i, c := range late {
		d.count("evaluations", 1)
		if c.ran != 1 {
			fp := fpPanicPr
			if c.ran > 1 {
				fp = fpPrTwice
			}
			d.viol(fp, fmt.Sprintf("%s: callback no. %d registered after the (panicking) Trigger ran %d times by the end of the history, expected once", descr, i, c.ran), detail)
		}
		if c.ran > 0 && withValue && c.val != v && !(pan && (c.val == v+1 || c.val == v+2)) {
			d.viol(fpPrValue, fmt.Sprintf("%s: late callback no. %d ran with %d, the first Trigger passed %d", descr, i, c.val, v), detail)
		}
	}
}
