package main

import (
	"fmt"
	"strconv"
	"strings"
	"sync"
	"sync/atomic"

	"github.com/iotaledger/hive.go/runtime/event"
)

// Trigger counting: "an event or hook limited by WithMaxTriggerCount(n) fires exactly
// min(n, number of triggers) times" quantifies over EVERY Trigger call of the event –
// also the calls that arrive while no hook is attached (before the first Hook, after
// the last Unhook, while the event is linked but nobody listens to it, while it is
// unlinked) – and the exported queries TriggerCount / WasTriggered / MaxTriggerCount /
// MaxTriggerCountReached of events and hooks describe the same count.
//
// Part 1 (deterministic, one goroutine): histories over
//
//	H / M<n>   Hook on the target event T (without / with WithMaxTriggerCount(n))
//	h / m<n>   Hook on the linked event L
//	U<i>       Unhook handle i (attached or not)
//	T / L      Trigger T / Trigger L directly
//	K1 / K0    L.LinkTo(T) / L.LinkTo(nil)
//
// for T and L created without and with WithMaxTriggerCount, for all ten exported
// arities, are executed against a model. After every Trigger the delivered calls must
// be exactly the model's (hook ids in attachment order, that call's arguments), and
// after EVERY step the queries of both events and of all hook handles are compared.
// All histories up to a bounded length are enumerated; longer ones are drawn from c.Seed.
//
// Part 2 (concurrent, plain and -race child): rounds whose phases alternate between
// "no hook attached" and "hooks attached", each phase = several goroutines triggering
// at once (directly or through a link from a source event). Hooks stay attached for a
// whole phase, so the number of their invocations is determined: the event delivers
// the triggers that are among its first n over ALL phases.
//
// Demanded of the queries (less than what the unchanged tree does):
//   - event.TriggerCount() == number of Trigger calls so far (its documented meaning),
//     WasTriggered() == (that number > 0), MaxTriggerCount() == configured limit;
//   - hook.TriggerCount(): == invocations for a hook without limit; for a limited hook
//     between its invocations and invocations + the visits that found it exhausted;
//   - MaxTriggerCountReached(): false while count < limit (or no limit), true once
//     count > limit. NOT demanded at count == limit, where the unchanged tree still
//     answers false (counted as ev_count_reached_query_at_exact_limit:*).
const (
	fpEvQueryPrefix = "event/count-query/" // + <Method>/event|hook: an exported counting query disagrees with the calls made so far
)

// ---------------------------------------------------------------- model

type cntCfg struct {
	Arity   int      `json:"arity"`
	MaxT    int      `json:"max_target_event"`
	MaxL    int      `json:"max_linked_event"`
	History []string `json:"history"`
}

type mHook struct {
	id        int
	owner     *mEv
	max       int
	visits    int
	inv       int
	live      bool
	exhausted bool
	link      bool
	q         tsQ
	unhook    func()
}

type mEv struct {
	name     string
	max      int
	calls    int
	hookless int // Trigger calls that found no attached hook
	order    []*mHook
	ev       *evN
	reached  bool // this step
	blocked  bool // this step: the call exceeded the event's limit
}

func (m *mEv) anyLive() bool {
	for _, h := range m.order {
		if h.live {
			return true
		}
	}
	return false
}

type cntStats struct {
	hooklessTriggers        int
	hooklessLimitedTriggers int
	budgetSpentHookless     bool // a Trigger with attached hooks was withheld by an event limit that hookless calls had (partly) used up
	queryChecks             int
}

func (e *evEnv) runCountHist(cfg cntCfg, count bool) {
	var cur uint64
	optsOf := func(n int) []event.Option {
		if n > 0 {
			return []event.Option{event.WithMaxTriggerCount(uint64(n))}
		}
		return nil
	}
	hs := strings.Join(cfg.History, " ")
	rep := func() replayRec {
		c := cfg
		c.History = append([]string(nil), cfg.History...)
		return e.rec("count", 0, c)
	}
	descr := func() string {
		return fmt.Sprintf("Event%s (T limit %d, linked L limit %d) history %s", arityName(cfg.Arity), cfg.MaxT, cfg.MaxL, hs)
	}
	var st cntStats
	var panicked any
	diverged := false // the model is meaningless after the first disagreement: stop there
	func() {
		defer func() { panicked = recover() }()
		mT := &mEv{name: "T", max: cfg.MaxT, ev: newEvN(cfg.Arity, &cur, optsOf(cfg.MaxT)...)}
		mL := &mEv{name: "L", max: cfg.MaxL, ev: newEvN(cfg.Arity, &cur, optsOf(cfg.MaxL)...)}
		var calls []int
		record := func(id int) func(uint64) {
			return func(arg uint64) {
				if arg != cur {
					calls = append(calls, -99)
					return
				}
				calls = append(calls, id)
			}
		}
		var handles []*mHook
		var link *mHook
		var expected []int
		var mtrig func(x *mEv)
		mtrig = func(x *mEv) {
			x.calls++
			x.reached = true
			if !x.anyLive() {
				x.hookless++
				st.hooklessTriggers++
				if x.max > 0 {
					st.hooklessLimitedTriggers++
				}
			}
			if x.max > 0 && x.calls > x.max {
				x.blocked = true
				if x.hookless > 0 && x.calls-x.hookless <= x.max && x.anyLive() {
					st.budgetSpentHookless = true
				}
				return
			}
			for _, h := range append([]*mHook(nil), x.order...) {
				if !h.live {
					continue
				}
				h.visits++
				if h.max > 0 && h.visits > h.max {
					h.live, h.exhausted = false, true
					continue
				}
				h.inv++
				if h.link {
					mtrig(mL)
				} else {
					expected = append(expected, h.id)
				}
			}
		}
		trigger := func(step int, x *mEv) {
			calls = calls[:0]
			expected = expected[:0]
			mT.reached, mT.blocked, mL.reached, mL.blocked = false, false, false, false
			linkLive := link != nil && link.live
			cur = argBase.Add(1)
			x.ev.trigger(cur)
			mtrig(x)
			if fmt.Sprint(calls) == fmt.Sprint(expected) {
				return
			}
			gotN, expN := map[int]int{}, map[int]int{}
			for _, id := range calls {
				gotN[id]++
			}
			for _, id := range expected {
				expN[id]++
			}
			fp := fpEvOrder
			for _, id := range expected {
				if gotN[id] != 0 {
					continue
				}
				h := handles[id]
				switch {
				case h.max > 0:
					fp = fpEvMaxHook
				case h.owner.max > 0 || (h.owner == mL && x == mT && mT.max > 0):
					fp = fpEvMaxEvent
				case h.owner == mL && x == mT:
					fp = fpEvLinkMissed
				default:
					fp = fpEvMissed
				}
			}
			for id, n := range gotN {
				switch {
				case id == -99:
					fp = fpEvArgs
				case n > 1:
					fp = fpEvTwice
				case expN[id] == 0:
					h := handles[id]
					switch {
					case h.exhausted:
						fp = fpEvMaxHook
					case !h.live:
						fp = fpEvUnhooked
					case h.owner.blocked || (h.owner == mL && !mL.reached && mT.blocked && linkLive):
						fp = fpEvMaxEvent
					case h.owner == mL && x == mT:
						fp = fpEvLinkFormer
					default:
						fp = fpEvUnhooked
					}
				}
			}
			diverged = true
			e.rep.viol(fp, fmt.Sprintf("%s: Trigger of %s at step %d (it was call no. %d of T / %d of L incl. this one where reached) invoked hooks %v, the model expects %v (ids = handle numbers in creation order)",
				descr(), x.name, step+1, mT.calls, mL.calls, calls, expected), rep())
		}
		qviol := func(method, kind, who string, step int, got, want any) {
			diverged = true
			e.rep.viol(fpEvQueryPrefix+method+"/"+kind, fmt.Sprintf("%s: after step %d %s.%s() = %v, expected %v (T was triggered %d times, %d of them with no hook attached; L %d / %d)",
				descr(), step+1, who, method, got, want, mT.calls, mT.hookless, mL.calls, mL.hookless), rep())
		}
		queries := func(step int) {
			for _, m := range []*mEv{mT, mL} {
				q := m.ev.q
				st.queryChecks += 4
				if got := q.TriggerCount(); got != m.calls {
					qviol("TriggerCount", "event", m.name, step, got, m.calls)
				}
				if got := q.WasTriggered(); got != (m.calls > 0) {
					qviol("WasTriggered", "event", m.name, step, got, m.calls > 0)
				}
				if got := q.MaxTriggerCount(); got != m.max {
					qviol("MaxTriggerCount", "event", m.name, step, got, m.max)
				}
				got := q.MaxTriggerCountReached()
				switch {
				case m.max == 0 || m.calls < m.max:
					if got {
						qviol("MaxTriggerCountReached", "event", m.name, step, got, false)
					}
				case m.calls > m.max:
					if !got {
						qviol("MaxTriggerCountReached", "event", m.name, step, got, true)
					}
				default:
					if count {
						e.c.Count("ev_count_reached_query_at_exact_limit:"+strconv.FormatBool(got), 1)
					}
				}
			}
			for _, h := range handles {
				who := "hook" + strconv.Itoa(h.id)
				st.queryChecks += 4
				tc := h.q.TriggerCount()
				if tc < h.inv || tc > h.visits {
					qviol("TriggerCount", "hook", who, step, tc, fmt.Sprintf("%d..%d", h.inv, h.visits))
				}
				if got := h.q.WasTriggered(); got != (h.inv > 0) {
					qviol("WasTriggered", "hook", who, step, got, h.inv > 0)
				}
				if got := h.q.MaxTriggerCount(); got != h.max {
					qviol("MaxTriggerCount", "hook", who, step, got, h.max)
				}
				if got := h.q.MaxTriggerCountReached(); got && (h.max == 0 || h.inv < h.max) {
					qviol("MaxTriggerCountReached", "hook", who, step, got, false)
				}
			}
		}
		for step, op := range cfg.History {
			switch {
			case op == "T":
				trigger(step, mT)
			case op == "L":
				trigger(step, mL)
			case op == "K1":
				mL.ev.linkTo(mT.ev)
				if link != nil {
					link.live = false
				}
				link = &mHook{id: -1, owner: mT, live: true, link: true}
				mT.order = append(mT.order, link)
			case op == "K0":
				mL.ev.linkTo(nil)
				if link != nil {
					link.live = false
				}
				link = nil
			case op[0] == 'U':
				i, _ := strconv.Atoi(op[1:])
				handles[i].unhook()
				handles[i].live = false
			default: // H, M<n>, h, m<n>
				owner := mT
				if op[0] == 'h' || op[0] == 'm' {
					owner = mL
				}
				h := &mHook{id: len(handles), owner: owner, live: true}
				var opts []event.Option
				if len(op) > 1 {
					h.max, _ = strconv.Atoi(op[1:])
					opts = append(opts, event.WithMaxTriggerCount(uint64(h.max)))
				}
				h.unhook, h.q = owner.ev.hook(record(h.id), opts...)
				handles = append(handles, h)
				owner.order = append(owner.order, h)
			}
			if !diverged {
				queries(step)
			}
			if diverged {
				break
			}
		}
	}()
	if panicked != nil {
		e.rep.viol(fpEvPanic, fmt.Sprintf("%s: a call into runtime/event panicked: %v", descr(), panicked), rep())
	}
	if count {
		c := e.c
		c.Count("evaluations", 1)
		c.Count("ev_count_histories", 1)
		c.Count("ev_count_histories:arity"+strconv.Itoa(cfg.Arity), 1)
		c.Count("ev_count_query_checks", st.queryChecks)
		c.Count("ev_count_hookless_triggers", st.hooklessTriggers)
		c.Count("ev_count_hookless_triggers_of_limited_event", st.hooklessLimitedTriggers)
		if st.budgetSpentHookless {
			c.Count("ev_count_histories_limit_used_up_by_hookless_triggers", 1)
		}
	}
}

func arityName(a int) string {
	if a == 0 {
		return ""
	}
	return strconv.Itoa(a)
}

// ---------------------------------------------------------------- case lists

func cntEnumerate(maxLen, maxHandles int, visit func(h []string)) {
	var h []string
	var rec func(nh int)
	rec = func(nh int) {
		if len(h) == maxLen {
			visit(h)
			return
		}
		try := func(op string, nh2 int) {
			h = append(h, op)
			rec(nh2)
			h = h[:len(h)-1]
		}
		if nh < maxHandles {
			for _, op := range []string{"H", "M1", "M2", "h", "m1"} {
				try(op, nh+1)
			}
		}
		for i := 0; i < nh; i++ {
			try("U"+strconv.Itoa(i), nh)
		}
		try("T", nh)
		try("L", nh)
		try("K1", nh)
		try("K0", nh)
	}
	rec(0)
}

var cntLimitPairs = [][2]int{{0, 0}, {1, 0}, {2, 0}, {3, 0}, {0, 1}, {0, 2}, {1, 1}, {2, 1}, {2, 2}}

// countEnumShard executes every history of the enumerated length (every step of it is
// judged, so all shorter histories are covered as prefixes) for all limit pairs.
func (e *evEnv) countEnumShard(shard, shards int) {
	for _, v := range []struct{ arity, maxLen int }{{1, e.c.Pick(5, 6)}, {0, e.c.Pick(4, 5)}, {2, e.c.Pick(4, 5)}} {
		n := 0
		cntEnumerate(v.maxLen, 3, func(h []string) {
			n++
			if n%shards != shard {
				return
			}
			triggers := 0
			for _, op := range h {
				if op == "T" || op == "L" {
					triggers++
				}
			}
			if triggers == 0 {
				return // nothing is ever counted or delivered
			}
			for _, lim := range cntLimitPairs {
				e.runCountHist(cntCfg{Arity: v.arity, MaxT: lim[0], MaxL: lim[1], History: h}, true)
			}
			if n%20011 == shard {
				e.c.Distinct("nontrivial", fmt.Sprintf("ev/count/enum/%d/%s", v.arity, strings.Join(h, "")))
			}
		})
	}
}

// countRandShard: longer histories from the seed, all arities.
func (e *evEnv) countRandShard(shard, shards int) {
	per := e.c.Pick(12000, 80000)
	for arity := 0; arity <= 9; arity++ {
		for i := shard; i < per; i += shards {
			rng := e.c.Rand(fmt.Sprintf("ev/count/rand/%d/%d", arity, i))
			cfg := cntCfg{Arity: arity, MaxT: []int{0, 0, 1, 2, 3, 4, 5}[rng.Intn(7)], MaxL: []int{0, 0, 1, 2, 3}[rng.Intn(5)]}
			n := 6 + rng.Intn(13)
			nh := 0
			for len(cfg.History) < n {
				switch r := rng.Intn(20); {
				case r < 8:
					cfg.History = append(cfg.History, "T")
				case r < 10:
					cfg.History = append(cfg.History, "L")
				case r < 12:
					cfg.History = append(cfg.History, "K1")
				case r < 13:
					cfg.History = append(cfg.History, "K0")
				case r < 16 && nh > 0:
					cfg.History = append(cfg.History, "U"+strconv.Itoa(rng.Intn(nh)))
				case nh < 6:
					op := []string{"H", "h", "M", "m"}[rng.Intn(4)]
					if op == "M" || op == "m" {
						op += strconv.Itoa(1 + rng.Intn(3))
					}
					cfg.History = append(cfg.History, op)
					nh++
				}
			}
			e.runCountHist(cfg, true)
			if i%503 == 0 {
				e.c.Distinct("nontrivial", fmt.Sprintf("ev/count/rand/%d/%d/%d/%s", arity, cfg.MaxT, cfg.MaxL, strings.Join(cfg.History, "")))
			}
		}
	}
}

// ---------------------------------------------------------------- concurrent phases

type hlPhase struct {
	Hooked     bool  `json:"hooked"`
	Goroutines int   `json:"goroutines"`
	Each       int   `json:"each"`
	HookMax    []int `json:"hook_limits,omitempty"`
	Pooled     bool  `json:"pooled,omitempty"`
}

func (e *evEnv) roundHookless(no int) {
	const kind = "max-hookless"
	rng := e.c.Rand(fmt.Sprintf("ev/%s/%d", kind, no))
	arity := rng.Intn(10)
	viaLink := rng.Intn(3) == 0
	nPh := 2 + rng.Intn(4)
	hooked := rng.Intn(4) == 0 // mostly start with nobody listening
	var phases []hlPhase
	total := 0
	for p := 0; p < nPh; p++ {
		ph := hlPhase{Hooked: hooked, Goroutines: 1 + rng.Intn(4), Each: 1 + rng.Intn(3)}
		k := ph.Goroutines * ph.Each
		if hooked {
			ph.Pooled = rng.Intn(4) == 0
			for i, n := 0, 1+rng.Intn(3); i < n; i++ {
				m := 0
				if rng.Intn(2) == 0 {
					m = 1 + rng.Intn(k+2)
				}
				ph.HookMax = append(ph.HookMax, m)
			}
		}
		total += k
		phases = append(phases, ph)
		hooked = !hooked
	}
	evMax := 0
	if rng.Intn(4) != 0 {
		evMax = 1 + rng.Intn(total+1)
	}
	detail := map[string]any{"arity": arity, "via_link": viaLink, "event_max": evMax, "phases": phases}
	var zero uint64 // arity 0: the callbacks read it, nobody writes it
	var opts []event.Option
	if evMax > 0 {
		opts = append(opts, event.WithMaxTriggerCount(uint64(evMax)))
	}
	var panics atomic.Int64
	ev := newEvN(arity, &zero, opts...)
	src := ev
	if viaLink {
		src = newEvN(arity, &zero)
		guard(&panics, func() { ev.linkTo(src) })
	}
	before := 0
	spentHookless := false
	hooklessLimited := 0
	for pi, ph := range phases {
		k := ph.Goroutines * ph.Each
		base := argBase.Add(uint64(k)) - uint64(k)
		delivered := k
		if evMax > 0 {
			delivered = evMax - before
			if delivered < 0 {
				delivered = 0
			}
			if delivered > k {
				delivered = k
			}
		}
		type att struct {
			h      *hookRec
			q      tsQ
			unhook func()
		}
		var hooks []att
		for i, m := range ph.HookMax {
			h := newHookRec(i, k+8)
			h.max = m
			var ho []event.Option
			if m > 0 {
				ho = append(ho, event.WithMaxTriggerCount(uint64(m)))
			}
			if ph.Pooled {
				h.pooled = true
				ho = append(ho, event.WithWorkerPool(e.pool))
			}
			a := att{h: h}
			guard(&panics, func() { a.unhook, a.q = ev.hook(h.cb, ho...) })
			hooks = append(hooks, a)
		}
		var wg sync.WaitGroup
		start := &barrier{n: int32(ph.Goroutines)}
		for g := 0; g < ph.Goroutines; g++ {
			wg.Add(1)
			go func(g int) {
				defer wg.Done()
				start.wait()
				for i := 0; i < ph.Each; i++ {
					guard(&panics, func() { src.trigger(base + uint64(g*ph.Each+i)) })
				}
			}(g)
		}
		wg.Wait()
		if ph.Pooled {
			e.drain()
		}
		if !ph.Hooked {
			e.c.Count("ev_hookless_phase_triggers", k)
			if evMax > 0 {
				hooklessLimited += k
			}
		} else if evMax > 0 && delivered < k && hooklessLimited > 0 && before-hooklessLimited < evMax {
			spentHookless = true
		}
		where := fmt.Sprintf("%s round %d (Event%s, via link %v, event limit %d) phase %d: %d triggers from %d goroutines after %d earlier triggers", kind, no, arityName(arity), viaLink, evMax, pi, k, ph.Goroutines, before)
		var refSet map[uint64]bool
		for _, a := range hooks {
			h := a.h
			e.c.Count("evaluations", 1)
			want := delivered
			fp := fpEvMissed
			if evMax > 0 {
				fp = fpEvMaxEvent
			}
			if h.max > 0 && h.max < want {
				want = h.max
			}
			got := int(h.n.Load())
			if h.max > 0 && (evMax == 0 || got > h.max) {
				fp = fpEvMaxHook // otherwise a wrong number is attributed to the event's limit
			}
			seen := map[uint64]bool{}
			if arity > 0 {
				dup := false
				for _, iv := range h.calls() {
					if seen[iv.arg] {
						dup = true
					}
					seen[iv.arg] = true
					if iv.arg < base || iv.arg >= base+uint64(k) {
						e.rep.viol(fpEvArgs, where+": a hook received arguments that no Trigger of this phase passed", e.rec(kind, no, detail))
					}
				}
				if dup {
					e.rep.viol(fpEvTwice, where+": a hook was invoked twice with the same trigger arguments", e.rec(kind, no, detail))
				}
				if h.max == 0 && got == want {
					if refSet == nil {
						refSet = seen
					} else {
						for arg := range refSet {
							if !seen[arg] {
								e.rep.viol(fpEvMissed, where+": two hooks that were attached during the whole phase were invoked for different triggers", e.rec(kind, no, detail))
								break
							}
						}
					}
				}
			}
			if got != want {
				e.rep.viol(fp, fmt.Sprintf("%s: hook with limit %d fired %d times, expected %d (the event delivers only the triggers among its first n, counting the ones nobody listened to)", where, h.max, got, want), e.rec(kind, no, detail))
			}
			if a.q != nil && got == want {
				e.c.Count("ev_count_query_checks", 2)
				if tc := a.q.TriggerCount(); tc < want || tc > delivered {
					e.rep.viol(fpEvQueryPrefix+"TriggerCount/hook", fmt.Sprintf("%s: hook.TriggerCount() = %d, expected %d..%d", where, tc, want, delivered), e.rec(kind, no, detail))
				}
				if wt := a.q.WasTriggered(); wt != (want > 0) {
					e.rep.viol(fpEvQueryPrefix+"WasTriggered/hook", fmt.Sprintf("%s: hook.WasTriggered() = %v after %d invocations", where, wt, want), e.rec(kind, no, detail))
				}
			}
			if a.unhook != nil {
				guard(&panics, a.unhook)
			}
		}
		before += k
		e.c.Count("ev_count_query_checks", 3)
		if tc := ev.q.TriggerCount(); tc != before {
			e.rep.viol(fpEvQueryPrefix+"TriggerCount/event", fmt.Sprintf("%s: event.TriggerCount() = %d after %d Trigger calls", where, tc, before), e.rec(kind, no, detail))
		}
		if !ev.q.WasTriggered() {
			e.rep.viol(fpEvQueryPrefix+"WasTriggered/event", where+": event.WasTriggered() = false", e.rec(kind, no, detail))
		}
		if r := ev.q.MaxTriggerCountReached(); (r && (evMax == 0 || before < evMax)) || (!r && evMax > 0 && before > evMax) {
			e.rep.viol(fpEvQueryPrefix+"MaxTriggerCountReached/event", fmt.Sprintf("%s: event.MaxTriggerCountReached() = %v after %d Trigger calls", where, r, before), e.rec(kind, no, detail))
		}
	}
	if p := panics.Load(); p > 0 {
		e.rep.viol(fpEvPanic, fmt.Sprintf("%s round %d: %d calls into runtime/event panicked", kind, no, p), e.rec(kind, no, detail))
	}
	e.c.Count("ev_rounds:"+kind, 1)
	e.c.Count("ev_hookless_phase_triggers_of_limited_event", hooklessLimited)
	if spentHookless {
		e.c.Count("ev_hookless_rounds_limit_used_up_by_hookless_triggers", 1)
		e.c.Distinct("nontrivial", fmt.Sprintf("ev/%s/arity%d/link=%v/race=%v", kind, arity, viaLink, e.race))
	}
}

// ---------------------------------------------------------------- limit ladders

// roundLadder: the verdict of a limit round needs two Trigger calls that overlap within a
// few instructions exactly when the count stands one below the limit. With ONE limit per
// round that moment exists once; here every count is critical for somebody: either one
// event carries hooks with the limits 1..m, or every goroutine walks over events with the
// limits 1..m. Expected (exact, hooks stay attached): hook/event with limit j fires
// min(j, k) times, and event.TriggerCount() == k.
func (e *evEnv) roundLadder(no int) {
	const kind = "max-ladder"
	rng := e.c.Rand(fmt.Sprintf("ev/%s/%d", kind, no))
	nT := 2 + rng.Intn(3)
	per := 4 + rng.Intn(13)
	k := nT * per
	m := k + 2
	onEvent := rng.Intn(2) == 0
	detail := map[string]any{"trigger_goroutines": nT, "triggers_each": per, "limits": fmt.Sprintf("1..%d", m), "on_event": onEvent}
	var panics atomic.Int64
	var events []*event.Event1[uint64]
	hooks := make([]*hookRec, m)
	if onEvent {
		for j := 1; j <= m; j++ {
			ev := event.New1[uint64](event.WithMaxTriggerCount(uint64(j)))
			hooks[j-1] = newHookRec(j, k+8)
			guard(&panics, func() { ev.Hook(hooks[j-1].cb) })
			events = append(events, ev)
		}
	} else {
		ev := event.New1[uint64]()
		for j := 1; j <= m; j++ {
			hooks[j-1] = newHookRec(j, k+8)
			guard(&panics, func() { ev.Hook(hooks[j-1].cb, event.WithMaxTriggerCount(uint64(j))) })
		}
		events = append(events, ev)
	}
	base := argBase.Add(uint64(k)) - uint64(k)
	var wg sync.WaitGroup
	start := &barrier{n: int32(nT)}
	for g := 0; g < nT; g++ {
		wg.Add(1)
		go func(g int) {
			defer wg.Done()
			start.wait()
			for i := 0; i < per; i++ {
				for _, ev := range events {
					guard(&panics, func() { ev.Trigger(base + uint64(g*per+i)) })
				}
			}
		}(g)
	}
	wg.Wait()
	if p := panics.Load(); p > 0 {
		e.rep.viol(fpEvPanic, fmt.Sprintf("%s round %d: %d calls into runtime/event panicked", kind, no, p), e.rec(kind, no, detail))
	}
	fp := fpEvMaxHook
	if onEvent {
		fp = fpEvMaxEvent
	}
	for j := 1; j <= m; j++ {
		e.c.Count("evaluations", 1)
		want := j
		if want > k {
			want = k
		}
		if got := int(hooks[j-1].n.Load()); got != want {
			e.rep.viol(fp, fmt.Sprintf("%s round %d: limit %d, %d triggers from %d goroutines: hook fired %d times, expected min(n,k) = %d", kind, no, j, k, nT, got, want), e.rec(kind, no, detail))
		}
	}
	for _, ev := range events {
		if tc := ev.TriggerCount(); tc != k {
			e.rep.viol(fpEvQueryPrefix+"TriggerCount/event", fmt.Sprintf("%s round %d: event.TriggerCount() = %d after %d Trigger calls from %d goroutines", kind, no, tc, k, nT), e.rec(kind, no, detail))
		}
	}
	e.c.Count("ev_max_ladder_limits", m)
	e.c.Count("ev_rounds:"+kind, 1)
	e.c.Distinct("nontrivial", fmt.Sprintf("ev/%s/T%d/onEvent=%v/race=%v", kind, nT, onEvent, e.race))
}
