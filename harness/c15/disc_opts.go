package main

import (
	"fmt"
	"math/rand"
	"sync"
	"unsafe"

	"github.com/iotaledger/hive.go/runtime/event"
	"github.com/iotaledger/hive.go/runtime/workerpool"
)

// Discipline 1 for the option slices of New/New1..New9 and Hook (all arities): they are
// caller-owned. One backing array (the caller's "option table") is shared by all calls of
// a case; the calls pass prefixes table[:j]... (with the spare capacity a plain slice
// expression leaves), three-index slices table[:j:j]..., and in between the caller itself
// appends to a prefix (the common-base idiom: append(base, x) writes slot len(base)).
//
// Demanded:
//   - after every call every slot that belongs to a slice the caller still holds is the very
//     same function value as before the call (compared as machine words of the caller's own
//     array); writes into capacity beyond every live slice are only counted;
//   - every created event / hook carries the setting of the LAST matching option of exactly
//     the slice it was given: MaxTriggerCount(), WorkerPool() (exported accessors), and in
//     use: it fires min(n, triggers) times with each trigger's arguments, its pre-trigger
//     function runs at least once per invocation, in-place hooks are done when Trigger returns;
//   - handles and events created earlier keep answering the same after every later call and
//     after the caller has overwritten the whole table.

type optD struct {
	Kind string `json:"kind"` // max | inplace | pool | pre
	N    int    `json:"n"`    // max: the limit; pre: id of the call counter
}

func (o optD) String() string {
	switch o.Kind {
	case "max":
		return fmt.Sprintf("WithMaxTriggerCount(%d)", o.N)
	case "inplace":
		return "WithWorkerPool(nil)"
	case "pool":
		return "WithWorkerPool(pool)"
	}
	return fmt.Sprintf("WithPreTriggerFunc(#%d)", o.N)
}

type optsOp struct {
	Op   string `json:"op"` // new | hook | append
	Hi   int    `json:"hi"` // the slice expression is table[:Hi]
	Cap3 bool   `json:"three_index,omitempty"`
	Ev   int    `json:"event,omitempty"`
	D    *optD  `json:"appended,omitempty"`
}

func (o optsOp) String() string {
	sl := fmt.Sprintf("table[:%d]", o.Hi)
	if o.Cap3 {
		sl = fmt.Sprintf("table[:%d:%d]", o.Hi, o.Hi)
	}
	switch o.Op {
	case "new":
		return "New(" + sl + "...)"
	case "hook":
		return fmt.Sprintf("E%d.Hook(f, %s...)", o.Ev, sl)
	}
	return fmt.Sprintf("append(table[:%d], %s)", o.Hi, *o.D)
}

type effS struct {
	max  int
	pool int // 0 not set, 1 in place (forced), 2 the pool
	pre  int // -1 none
}

func effective(ds []optD) effS {
	e := effS{pre: -1}
	for _, d := range ds {
		switch d.Kind {
		case "max":
			e.max = d.N
		case "inplace":
			e.pool = 1
		case "pool":
			e.pool = 2
		case "pre":
			e.pre = d.N
		}
	}
	return e
}

type poolQ interface {
	WorkerPool() *workerpool.WorkerPool
}

type oHook struct {
	name   string
	q      tsQ
	eff    effS
	mu     sync.Mutex
	inv    []uint64
	atRet  int // invocations seen when the Trigger that was running returned
	pooled bool
}

type oEvent struct {
	name  string
	ev    *evN
	eff   effS
	hooks []*oHook
}

func funcWords(s []event.Option) []uintptr {
	out := make([]uintptr, len(s))
	for i := range s {
		out[i] = *(*uintptr)(unsafe.Pointer(&s[i]))
	}
	return out
}

func mkPre(arity int, f func()) any {
	switch arity {
	case 0:
		return func() { f() }
	case 1:
		return func(uint64) { f() }
	case 2:
		return func(uint64, uint64) { f() }
	}
	panic("pre arity")
}

func (d *discEnv) caseOpts(no int, rng *rand.Rand) {
	arity := []int{0, 1, 1, 2, 2, 3, 5, 9}[rng.Intn(8)]
	tlen := 1 + rng.Intn(4)
	extra := rng.Intn(3)
	capN := tlen + extra
	preID := 0
	genD := func() optD {
		for {
			switch rng.Intn(10) {
			case 0, 1, 2, 3:
				return optD{"max", 1 + rng.Intn(3)}
			case 4, 5:
				return optD{Kind: "inplace"}
			case 6, 7:
				return optD{Kind: "pool"}
			default:
				if arity <= 2 {
					preID++
					return optD{"pre", preID}
				}
			}
		}
	}
	desc := make([]optD, capN)
	for i := 0; i < tlen; i++ {
		desc[i] = genD()
	}
	initial := append([]optD(nil), desc[:tlen]...)
	// ---- the operations
	var ops []optsOp
	nOps := 2 + rng.Intn(4)
	lv := tlen
	nEv := 1 // E0 exists from the start
	ascending := rng.Intn(10) < 6
	for i := 0; i < nOps; i++ {
		op := optsOp{}
		switch r := rng.Intn(20); {
		case r < 8:
			op.Op = "new"
		case r < 17:
			op.Op = "hook"
			op.Ev = rng.Intn(nEv)
		default:
			op.Op = "append"
		}
		if op.Op == "append" {
			op.Hi = rng.Intn(lv + 1)
			if op.Hi >= capN {
				op.Hi = capN - 1
			}
			dd := genD()
			op.D = &dd
			if op.Hi+1 > lv {
				lv = op.Hi + 1
			}
		} else {
			op.Hi = rng.Intn(lv + 1)
			if ascending && i == 0 && lv > 1 {
				op.Hi = rng.Intn(lv) // the first call gets a proper prefix
			}
			if ascending && i == nOps-1 {
				op.Hi = lv // the last one the whole table
			}
			op.Cap3 = rng.Intn(6) == 0
			if op.Op == "new" {
				nEv++
			}
		}
		ops = append(ops, op)
	}
	scribble := rng.Intn(2) == 0
	detail := map[string]any{"arity": arity, "table": fmt.Sprint(initial), "table_cap": capN, "ops": fmt.Sprint(ops), "table_overwritten_before_use": scribble}
	descr := fmt.Sprintf("Event%s, option table %v (cap %d), calls %v", arityName(arity), initial, capN, ops)

	// ---- execution
	var cur uint64
	preCalls := map[int]*int{}
	var preMu sync.Mutex
	mk := func(o optD) event.Option {
		switch o.Kind {
		case "max":
			return event.WithMaxTriggerCount(uint64(o.N))
		case "inplace":
			return event.WithWorkerPool(nil)
		case "pool":
			return event.WithWorkerPool(d.pool)
		}
		n := new(int)
		preCalls[o.N] = n
		return event.WithPreTriggerFunc(mkPre(arity, func() { preMu.Lock(); *n++; preMu.Unlock() }))
	}
	back := make([]event.Option, tlen, capN)
	for i := 0; i < tlen; i++ {
		back[i] = mk(desc[i])
	}
	live := tlen
	var events []*oEvent
	var panicked any
	newHook := func(ev *oEvent, name string, ds []optD, opts []event.Option) *oHook {
		h := &oHook{name: name, eff: effective(ds)}
		_, h.q = ev.ev.hook(func(arg uint64) {
			h.mu.Lock()
			h.inv = append(h.inv, arg)
			h.mu.Unlock()
		}, opts...)
		ev.hooks = append(ev.hooks, h)
		return h
	}
	wantPool := func(ev *oEvent, h *oHook) *workerpool.WorkerPool {
		e := ev.eff
		if h != nil && h.eff.pool != 0 {
			e = h.eff
		}
		if e.pool == 2 {
			return d.pool
		}
		return nil
	}
	recheck := func(after string) {
		for _, ev := range events {
			if g := ev.ev.q.MaxTriggerCount(); g != ev.eff.max {
				d.viol(fpOptsApplied, fmt.Sprintf("%s: after %s, %s.MaxTriggerCount() = %d, the options it was created with say %d", descr, after, ev.name, g, ev.eff.max), detail)
			}
			if pq, ok := ev.ev.q.(poolQ); ok {
				if pq.WorkerPool() != wantPool(ev, nil) {
					d.viol(fpOptsApplied, fmt.Sprintf("%s: after %s, %s.WorkerPool() is not the pool its options name (pool option state %d)", descr, after, ev.name, ev.eff.pool), detail)
				}
			}
			d.count("disc_held_handles_rechecked", 1)
			for _, h := range ev.hooks {
				if g := h.q.MaxTriggerCount(); g != h.eff.max {
					d.viol(fpOptsApplied, fmt.Sprintf("%s: after %s, the handle of %s answers MaxTriggerCount() = %d, the options it was attached with say %d", descr, after, h.name, g, h.eff.max), detail)
				}
				if pq, ok := h.q.(poolQ); ok {
					if pq.WorkerPool() != wantPool(ev, h) {
						d.viol(fpOptsApplied, fmt.Sprintf("%s: after %s, the handle of %s answers a WorkerPool() other than the one its options (or its event's) name", descr, after, h.name), detail)
					}
				}
				d.count("disc_held_handles_rechecked", 1)
			}
		}
	}
	func() {
		defer func() { panicked = recover() }()
		e0 := &oEvent{name: "E0", ev: newEvN(arity, &cur), eff: effective(nil)}
		events = append(events, e0)
		minHi := -1
		for oi, op := range ops {
			if op.Op == "append" {
				// the caller's own write (in place: Hi < cap)
				s := append(back[:op.Hi], mk(*op.D))
				desc[op.Hi] = *op.D
				if len(s) > live {
					live = len(s)
					back = back[:live]
				}
				continue
			}
			passed := back[:op.Hi]
			if op.Cap3 {
				passed = back[:op.Hi:op.Hi]
			}
			ds := append([]optD(nil), desc[:op.Hi]...)
			full := back[:capN]
			before := funcWords(full)
			if cap(passed) > len(passed) && op.Hi < live {
				d.count("disc_opts_calls_with_spare_capacity_below_a_live_sibling_slot", 1)
			}
			if minHi >= 0 && op.Hi > minHi {
				d.count("disc_opts_sibling_slices_used_after_a_shorter_one", 1)
			}
			if minHi < 0 || op.Hi < minHi {
				minHi = op.Hi
			}
			var what string
			if op.Op == "new" {
				ev := &oEvent{name: fmt.Sprintf("E%d", len(events)), eff: effective(ds)}
				ev.ev = newEvN(arity, &cur, passed...)
				events = append(events, ev)
				what = ev.name + " = " + op.String()
			} else {
				ev := events[op.Ev]
				newHook(ev, fmt.Sprintf("hook %d of %s (call no. %d)", len(ev.hooks), ev.name, oi), ds, passed)
				what = op.String()
			}
			after := funcWords(full)
			for i := range before {
				if before[i] == after[i] {
					continue
				}
				if i < live {
					d.viol(fpOptsMem, fmt.Sprintf("%s: %s was given %d option(s) of the caller's table; when it returned, slot %d of that table (%s, part of a slice the caller still holds) had been overwritten", descr, what, op.Hi, i, desc[i]), detail)
				} else {
					d.count("disc_opts_writes_into_capacity_beyond_every_live_slice(not demanded)", 1)
				}
			}
			d.count("disc_opts_backing_array_slots_compared", live)
			d.count("disc_opts_calls", 1)
			recheck(what)
		}
		if scribble {
			full := back[:capN]
			for i := range full {
				if i%2 == 0 {
					full[i] = event.WithMaxTriggerCount(7)
				} else {
					full[i] = event.WithWorkerPool(d.pool)
				}
			}
			d.count("disc_opts_tables_scribbled_before_use", 1)
			recheck("the caller overwrote its option table")
		}
		// an observer without options on every event
		for _, ev := range events {
			newHook(ev, "observer hook of "+ev.name, nil, nil)
		}
		// ---- use
		const k = 4
		for _, ev := range events {
			var args []uint64
			for t := 0; t < k; t++ {
				cur = argBase.Add(1)
				args = append(args, cur)
				ev.ev.trigger(cur)
				for _, h := range ev.hooks {
					h.mu.Lock()
					h.atRet = len(h.inv)
					h.mu.Unlock()
				}
				d.drain()
				// judged per trigger for in-place hooks: done by the Trigger's return
				for _, h := range ev.hooks {
					if wantPool(ev, h) == nil {
						h.mu.Lock()
						late := len(h.inv) - h.atRet
						h.mu.Unlock()
						if late > 0 {
							d.viol(fpEvWindow, fmt.Sprintf("%s: %s has to run in place (its options / its event's options name no worker pool), yet %d invocation(s) arrived after Trigger had returned", descr, h.name, late), detail)
						}
					}
				}
			}
			fires := k
			if ev.eff.max > 0 && ev.eff.max < k {
				fires = ev.eff.max
			}
			for _, h := range ev.hooks {
				want := fires
				if h.eff.max > 0 && h.eff.max < want {
					want = h.eff.max
				}
				h.mu.Lock()
				got := append([]uint64(nil), h.inv...)
				h.mu.Unlock()
				d.count("evaluations", 1)
				ok := len(got) == want
				seen := map[uint64]bool{}
				for _, a := range got {
					if seen[a] {
						ok = false
					}
					seen[a] = true
				}
				for i := 0; i < want && i < len(args); i++ {
					if !seen[args[i]] {
						ok = false
					}
				}
				if ok {
					continue
				}
				fp := fpEvMissed
				switch {
				case h.eff.max > 0:
					fp = fpEvMaxHook
				case ev.eff.max > 0:
					fp = fpEvMaxEvent
				case len(got) > want:
					fp = fpEvTwice
				}
				d.viol(fp, fmt.Sprintf("%s: %d triggers of %s (limit %d; 0 = none): %s (limit %d) was invoked with %v, expected exactly the first %d of the trigger arguments %v", descr, k, ev.name, ev.eff.max, h.name, h.eff.max, got, want, args), detail)
			}
		}
		// pre-trigger functions: once per invocation of the hooks they guard
		wantPre := map[int]int{}
		for _, ev := range events {
			for _, h := range ev.hooks {
				h.mu.Lock()
				n := len(h.inv)
				h.mu.Unlock()
				if ev.eff.pre >= 0 {
					wantPre[ev.eff.pre] += n
				}
				if h.eff.pre >= 0 {
					wantPre[h.eff.pre] += n
				}
			}
		}
		for id, n := range preCalls {
			preMu.Lock()
			g := *n
			preMu.Unlock()
			d.count("disc_opts_pretrigger_counters_checked", 1)
			switch {
			case g < wantPre[id]:
				d.viol(fpOptsApplied, fmt.Sprintf("%s: pre-trigger function #%d ran %d times, the hooks whose effective pre-trigger function it is were invoked %d times", descr, id, g, wantPre[id]), detail)
			case g > wantPre[id]:
				d.count("disc_opts_pretrigger_function_ran_more_often_than_its_hooks(not demanded)", 1)
			}
		}
	}()
	if panicked != nil {
		d.viol(fpEvPanic, fmt.Sprintf("%s: a call into runtime/event panicked: %v", descr, panicked), detail)
	}
}
