package main

import (
	"fmt"
	"math/rand"
	"reflect"
	"sync"
	"unsafe"

	"github.com/iotaledger/hive.go/runtime/event"
	"github.com/iotaledger/hive.go/runtime/promise"
)

// Discipline 1 for trigger arguments of reference type and for what hooks are handed.
//
// The library passes the arguments through by value, so a pointer / slice / map argument
// is shared between the caller and all hooks by design. Demanded is therefore only:
// every hook (plain, pooled, behind a link, promise callbacks registered before and after
// Trigger) receives the very pointer / slice header (data pointer, len, cap) / map that was
// passed to that Trigger call, exactly once; as long as no hook has written to it the
// content it sees is the content at the call, and the caller's value is unchanged when
// Trigger has returned (and the pool has drained). Hooks that scribble on what they were
// handed (overwrite an element, append within the spare capacity, replace a map entry,
// re-slice their own copy of the header) and callers that recycle one buffer for
// consecutive Triggers must not change identity or exactly-once for anybody else; what
// later hooks see of the scribbled content is not demanded.

type payload struct {
	A uint64
	B []uint64
}

type seenArg struct {
	ptr      unsafe.Pointer
	len, cap int
	content  []uint64
}

func seeSlice(s []uint64) seenArg {
	return seenArg{unsafe.Pointer(unsafe.SliceData(s)), len(s), cap(s), append([]uint64(nil), s...)}
}

func seePtr(p *payload) seenArg {
	if p == nil {
		return seenArg{}
	}
	return seenArg{unsafe.Pointer(p), len(p.B), cap(p.B), append([]uint64{p.A}, p.B...)}
}

func seeMap(m map[uint64]uint64) seenArg {
	var c []uint64
	for k := uint64(0); k < 8; k++ {
		if v, ok := m[k]; ok {
			c = append(c, k, v)
		}
	}
	return seenArg{reflect.ValueOf(m).UnsafePointer(), len(m), 0, c}
}

func (a seenArg) same(b seenArg) bool { return a.ptr == b.ptr && a.len == b.len && a.cap == b.cap }

func eqU64(a, b []uint64) bool {
	if len(a) != len(b) {
		return false
	}
	for i := range a {
		if a[i] != b[i] {
			return false
		}
	}
	return true
}

type argHook struct {
	name     string
	pooled   bool
	scribble bool
	mu       sync.Mutex
	seen     []seenArg
}

func (h *argHook) record(s seenArg) {
	h.mu.Lock()
	h.seen = append(h.seen, s)
	h.mu.Unlock()
}

func (d *discEnv) caseRefArgs(no int, rng *rand.Rand) {
	kind := []string{"slice", "ptr", "map+ptr", "promise-slice", "promise-ptr"}[no%5]
	nHooks := 1 + rng.Intn(4)
	scribbler := -1
	if rng.Intn(2) == 0 {
		scribbler = rng.Intn(nHooks)
	}
	linked := rng.Intn(2) == 0
	rounds := 2 + rng.Intn(2)
	descr := fmt.Sprintf("reference arguments (%s), %d hooks, scribbling hook #%d (-1 = none), linked event %v, %d Triggers with one recycled buffer", kind, nHooks, scribbler, linked, rounds)
	detail := map[string]any{"kind": kind, "hooks": nHooks, "scribbler": scribbler, "linked": linked}
	var panicked any
	defer func() {
		if panicked != nil {
			d.viol(fpEvPanic, descr+": a call into the library panicked: "+fmt.Sprint(panicked), detail)
		}
	}()
	defer func() { panicked = recover() }()

	hooks := make([]*argHook, 0, nHooks+1)
	mkHook := func(i int) *argHook {
		h := &argHook{name: fmt.Sprintf("hook #%d", i), scribble: i == scribbler}
		// pooled hooks only read; with a scribbling hook around they would race by design
		h.pooled = scribbler < 0 && rng.Intn(3) == 0
		hooks = append(hooks, h)
		return h
	}
	hookOpts := func(h *argHook) []event.Option {
		if h.pooled {
			return []event.Option{event.WithWorkerPool(d.pool)}
		}
		return nil
	}
	judge := func(round int, passed seenArg, fp string) {
		for _, h := range hooks {
			h.mu.Lock()
			seen := h.seen
			h.seen = nil
			h.mu.Unlock()
			d.count("evaluations", 1)
			d.count("disc_refargs_deliveries_identity_checked", 1)
			if len(seen) != 1 {
				f := fpEvMissed
				if len(seen) > 1 {
					f = fpEvTwice
				}
				if fp == fpPrArg {
					f = fpPrLost
					if len(seen) > 1 {
						f = fpPrTwice
					}
				}
				d.viol(f, fmt.Sprintf("%s: Trigger no. %d invoked %s %d times", descr, round, h.name, len(seen)), detail)
				continue
			}
			if !seen[0].same(passed) {
				d.viol(fp, fmt.Sprintf("%s: Trigger no. %d: %s received another pointer / slice header (len %d cap %d) than the one passed to Trigger (len %d cap %d)", descr, round, h.name, seen[0].len, seen[0].cap, passed.len, passed.cap), detail)
			}
			if scribbler < 0 && !eqU64(seen[0].content, passed.content) {
				d.viol(fpArgContent, fmt.Sprintf("%s: Trigger no. %d: %s saw the content %v, the caller passed %v and nobody wrote to it", descr, round, h.name, seen[0].content, passed.content), detail)
			}
		}
	}
	fill := func(buf []uint64) {
		for i := range buf {
			buf[i] = argBase.Add(1)
		}
	}

	switch kind {
	case "slice":
		T := event.New1[[]uint64]()
		L := event.New1[[]uint64]()
		cb := func(h *argHook) func([]uint64) {
			return func(s []uint64) {
				h.record(seeSlice(s))
				if h.scribble {
					d.count("disc_refargs_hooks_scribbling_on_delivered_argument", 1)
					if len(s) > 0 {
						s[0] = ^s[0]
					}
					t := append(s, 1)                     // within the capacity: writes behind the caller's len
					t = append(t, 2, 3, 4, 5, 6, 7, 8, 9) // beyond it
					t[0] = 7
				}
			}
		}
		for i := 0; i < nHooks; i++ {
			h := mkHook(i)
			T.Hook(cb(h), hookOpts(h)...)
			if linked && i == nHooks/2 {
				lh := &argHook{name: "hook of the linked event"}
				hooks = append(hooks, lh)
				L.Hook(cb(lh))
				L.LinkTo(T)
			}
		}
		buf := make([]uint64, 3+rng.Intn(3), 8)
		for r := 1; r <= rounds; r++ {
			fill(buf) // the caller recycles one buffer
			if r > 1 {
				d.count("disc_refargs_buffers_recycled_by_caller", 1)
			}
			passed := seeSlice(buf)
			T.Trigger(buf)
			d.drain()
			judge(r, passed, fpArgIdentity)
			if now := seeSlice(buf); scribbler < 0 && !(now.same(passed) && eqU64(now.content, passed.content)) {
				d.viol(fpArgContent, fmt.Sprintf("%s: after Trigger no. %d the caller's slice changed from %v to %v", descr, r, passed.content, now.content), detail)
			}
		}
	case "ptr":
		T := event.New1[*payload]()
		L := event.New1[*payload]()
		cb := func(h *argHook) func(*payload) {
			return func(p *payload) {
				h.record(seePtr(p))
				if h.scribble {
					d.count("disc_refargs_hooks_scribbling_on_delivered_argument", 1)
					p.A = ^p.A
					p.B = append(p.B, 1)
				}
			}
		}
		for i := 0; i < nHooks; i++ {
			h := mkHook(i)
			T.Hook(cb(h), hookOpts(h)...)
			if linked && i == nHooks/2 {
				lh := &argHook{name: "hook of the linked event"}
				hooks = append(hooks, lh)
				L.Hook(cb(lh))
				L.LinkTo(T)
			}
		}
		p := &payload{B: make([]uint64, 2, 4)}
		for r := 1; r <= rounds; r++ {
			p.A = argBase.Add(1)
			p.B = p.B[:2]
			fill(p.B)
			if r > 1 {
				d.count("disc_refargs_buffers_recycled_by_caller", 1)
			}
			passed := seePtr(p)
			T.Trigger(p)
			d.drain()
			// a scribbler ahead changes len(p.B) for those behind it: identity of the pointer only
			if scribbler >= 0 {
				for _, h := range hooks {
					h.mu.Lock()
					for i := range h.seen {
						h.seen[i].len, h.seen[i].cap = passed.len, passed.cap
					}
					h.mu.Unlock()
				}
			}
			judge(r, passed, fpArgIdentity)
			if now := seePtr(p); scribbler < 0 && !(now.same(passed) && eqU64(now.content, passed.content)) {
				d.viol(fpArgContent, fmt.Sprintf("%s: after Trigger no. %d the caller's object changed from %v to %v", descr, r, passed.content, now.content), detail)
			}
		}
	case "map+ptr":
		T := event.New2[map[uint64]uint64, *payload]()
		L := event.New2[map[uint64]uint64, *payload]()
		var ptrSeen []unsafe.Pointer
		var ptrMu sync.Mutex
		cb := func(h *argHook) func(map[uint64]uint64, *payload) {
			return func(m map[uint64]uint64, p *payload) {
				h.record(seeMap(m))
				ptrMu.Lock()
				ptrSeen = append(ptrSeen, unsafe.Pointer(p))
				ptrMu.Unlock()
				if h.scribble {
					d.count("disc_refargs_hooks_scribbling_on_delivered_argument", 1)
					m[0] = ^m[0]
					delete(m, 1)
					m[1] = 5
				}
			}
		}
		for i := 0; i < nHooks; i++ {
			h := mkHook(i)
			T.Hook(cb(h), hookOpts(h)...)
			if linked && i == nHooks/2 {
				lh := &argHook{name: "hook of the linked event"}
				hooks = append(hooks, lh)
				L.Hook(cb(lh))
				L.LinkTo(T)
			}
		}
		m := map[uint64]uint64{}
		p := &payload{}
		for r := 1; r <= rounds; r++ {
			for k := uint64(0); k < 3; k++ {
				m[k] = argBase.Add(1)
			}
			if r > 1 {
				d.count("disc_refargs_buffers_recycled_by_caller", 1)
			}
			passed := seeMap(m)
			ptrSeen = nil
			T.Trigger(m, p)
			d.drain()
			judge(r, passed, fpArgIdentity)
			for _, q := range ptrSeen {
				if q != unsafe.Pointer(p) {
					d.viol(fpArgIdentity, fmt.Sprintf("%s: Trigger no. %d: a hook received another pointer as second argument than the one passed", descr, r), detail)
				}
			}
			if now := seeMap(m); scribbler < 0 && !(now.same(passed) && eqU64(now.content, passed.content)) {
				d.viol(fpArgContent, fmt.Sprintf("%s: after Trigger no. %d the caller's map changed from %v to %v", descr, r, passed.content, now.content), detail)
			}
		}
	case "promise-slice", "promise-ptr":
		// callbacks before Trigger, Trigger, the caller overwrites its buffer, callbacks after
		// Trigger (called inline): all receive the header / pointer that was passed
		nAfter := 1 + rng.Intn(3)
		if kind == "promise-slice" {
			E := promise.NewEvent1[[]uint64]()
			cb := func(h *argHook) func([]uint64) {
				return func(s []uint64) {
					h.record(seeSlice(s))
					if h.scribble {
						d.count("disc_refargs_hooks_scribbling_on_delivered_argument", 1)
						s = append(s[:1], 1, 2, 3, 4, 5, 6, 7, 8, 9)
						s[0] = 7
					}
				}
			}
			for i := 0; i < nHooks; i++ {
				E.OnTrigger(cb(mkHook(i)))
			}
			buf := make([]uint64, 3, 8)
			fill(buf)
			passed := seeSlice(buf)
			if !E.Trigger(buf) {
				d.viol(fpPrTrigger, descr+": the first Trigger returned false", detail)
			}
			fill(buf) // recycled by the caller: the content is shared by design, the header is not
			d.count("disc_refargs_buffers_recycled_by_caller", 1)
			for i := 0; i < nAfter; i++ {
				h := &argHook{name: fmt.Sprintf("callback registered after Trigger #%d", i), scribble: i == 0 && scribbler >= 0}
				hooks = append(hooks, h)
				E.OnTrigger(cb(h))
			}
			sc := scribbler
			scribbler = 0 // content not demanded after the recycling
			judge(1, passed, fpPrArg)
			scribbler = sc
		} else {
			E := promise.NewEvent1[*payload]()
			cb := func(h *argHook) func(*payload) {
				return func(p *payload) {
					h.record(seenArg{ptr: unsafe.Pointer(p)})
					if h.scribble {
						d.count("disc_refargs_hooks_scribbling_on_delivered_argument", 1)
						p.A++
						p.B = append(p.B, 1)
					}
				}
			}
			for i := 0; i < nHooks; i++ {
				E.OnTrigger(cb(mkHook(i)))
			}
			p := &payload{A: argBase.Add(1)}
			if !E.Trigger(p) {
				d.viol(fpPrTrigger, descr+": the first Trigger returned false", detail)
			}
			if E.Trigger(&payload{}) {
				d.viol(fpPrTrigger, descr+": a second Trigger returned true", detail)
			}
			p.A = argBase.Add(1)
			d.count("disc_refargs_buffers_recycled_by_caller", 1)
			for i := 0; i < nAfter; i++ {
				h := &argHook{name: fmt.Sprintf("callback registered after Trigger #%d", i)}
				hooks = append(hooks, h)
				E.OnTrigger(cb(h))
			}
			sc := scribbler
			scribbler = 0
			judge(1, seenArg{ptr: unsafe.Pointer(p)}, fpPrArg)
			scribbler = sc
		}
	}
}

// ---------------------------------------------------------------- event.Group

type discGroup struct {
	event.Group[discGroup, *discGroup]
	A *event.Event1[uint64]
	B *event.Event2[uint64, uint64]
}

var newDiscGroup = event.CreateGroupConstructor(func() *discGroup {
	return &discGroup{A: event.New1[uint64](), B: event.New2[uint64, uint64]()}
})

// caseGroup: groups linked through the variadic constructor argument (a caller-owned slice:
// prefix of a longer table with spare capacity) and through Group.LinkTo, re-linked and
// unlinked; in half of the cases the re-link happens from inside a hook of the group's own
// event while the former target's Trigger is walking its hooks.
func (d *discEnv) caseGroup(no int, rng *rand.Rand) {
	descr := "event.Group"
	detail := map[string]any{}
	var panicked any
	defer func() {
		if panicked != nil {
			d.viol(fpEvPanic, descr+": a call into runtime/event panicked: "+fmt.Sprint(panicked), detail)
		}
	}()
	defer func() { panicked = recover() }()

	t1, t2 := newDiscGroup(), newDiscGroup()
	table := make([]*discGroup, 2, 3)
	table[0], table[1] = t1, t2
	var g *discGroup
	viaCtor := rng.Intn(2) == 0
	if viaCtor {
		g = newDiscGroup(table[:1]...)
		if table[0] != t1 || table[1] != t2 || table[:3][2] != nil {
			d.viol(fpGroupArgs, "the group constructor changed the caller's slice of link targets", detail)
		}
		d.count("disc_opts_group_constructor_calls_with_shared_slice", 1)
	} else {
		g = newDiscGroup()
		g.LinkTo(t1)
	}
	var gotA, gotB []uint64
	relinkInHook := rng.Intn(2) == 0
	armed := false
	g.A.Hook(func(v uint64) {
		gotA = append(gotA, v)
		if armed {
			armed = false
			d.count("disc_reent_group_relinks_from_hook", 1)
			g.LinkTo(t2) // from inside a hook of the group's own event, during t1.A's Trigger
		}
	})
	g.B.Hook(func(x, y uint64) {
		if y == ^x {
			gotB = append(gotB, x)
		} else {
			gotB = append(gotB, 0)
		}
	})
	detail["linked_by_constructor"], detail["relink_from_hook"] = viaCtor, relinkInHook
	step := 0
	expect := func(what string, wantA, wantB []uint64) {
		step++
		d.count("evaluations", 1)
		if !eqU64(gotA, wantA) || !eqU64(gotB, wantB) {
			d.viol(fpGroupLink, fmt.Sprintf("step %d (%s; linked by constructor %v, re-link from a hook %v): the group's events fired with %v / %v, expected %v / %v", step, what, viaCtor, relinkInHook, gotA, gotB, wantA, wantB), detail)
		}
		gotA, gotB = nil, nil
	}
	a := argBase.Add(1)
	t1.A.Trigger(a)
	t1.B.Trigger(a, ^a)
	t2.A.Trigger(a + 1)
	expect("linked to t1: t1.A, t1.B, t2.A triggered", []uint64{a}, []uint64{a})
	if relinkInHook {
		armed = true
		b := argBase.Add(1)
		t1.A.Trigger(b) // the hook re-links to t2 while running
		expect("t1.A triggered, its hook re-links the group to t2", []uint64{b}, nil)
	} else {
		g.LinkTo(t2)
	}
	c := argBase.Add(1)
	t1.A.Trigger(c)
	t1.B.Trigger(c, ^c)
	t2.A.Trigger(c + 1)
	t2.B.Trigger(c+1, ^(c + 1))
	expect("linked to t2: t1.A, t1.B, t2.A, t2.B triggered", []uint64{c + 1}, []uint64{c + 1})
	g.LinkTo(nil)
	e := argBase.Add(1)
	t1.A.Trigger(e)
	t2.A.Trigger(e)
	t2.B.Trigger(e, ^e)
	expect("unlinked: t1.A, t2.A, t2.B triggered", nil, nil)
	g.A.Trigger(e)
	expect("the group's own event triggered", []uint64{e}, nil)
}
