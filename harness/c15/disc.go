package main

import (
	"fmt"
	"math/rand"
	"strconv"
	"time"

	"github.com/iotaledger/hive.go/runtime/workerpool"
	"verif/harness/internal/vf"
)

// The three workload disciplines of harness/DISCIPLINES.md applied to every exported entry
// point of runtime/event, runtime/promise and runtime/valuenotifier. All cases are
// deterministic functions of (seed, family, number) and run on ONE goroutine of a plain,
// timer-free child ("disc"), so that a call that never returns (a lock left held by a
// panicking hook, a re-entrant call that parks on the object's own lock) is decided by the
// Go runtime ("all goroutines are asleep") and attributed through the last mark.
//
//	opts     caller-owned option slices: New/New1..New9 and Hook of all arities receive
//	         prefixes of a longer option table, siblings appended from a common base with
//	         spare capacity, and three-index slices; the backing array is compared word by
//	         word after every call, the sibling slices are used afterwards, the table is
//	         scribbled over, and the objects must behave as configured (disc_opts.go)
//	refargs  trigger arguments of reference type (pointer, slice, map) for events, linked
//	         events, pooled hooks and promise events: identity and content as delivered,
//	         hooks that scribble on what they were handed, buffers recycled by the caller
//	nested   Trigger of the same event (directly or through a link) from inside a hook
//	pr-reent promise callbacks that register callbacks, trigger again, unsubscribe others
//	vn-reent a context whose Done() calls back into the notifier / the listener
//	group    event.Group constructors (variadic link targets) and Group.LinkTo, also
//	         from inside a hook of one of the group's own events
//	panic-ev hooks / pre-trigger functions that panic (recovered by the Trigger caller),
//	         then the event is used again
//	panic-pr promise callbacks that panic, panic-vn contexts that panic inside Wait
const (
	fpOptsMem      = "event/caller-option-slice-changed" // a slot of the caller's option table that belongs to a live sibling slice differs after Hook/New returned
	fpOptsApplied  = "event/option-not-applied"          // the object does not carry the setting of the LAST matching option of the slice it was given (exported accessors / pre-trigger calls)
	fpArgIdentity  = "event/reference-argument-replaced" // a hook received a pointer / slice header / map other than the one passed to Trigger
	fpArgContent   = "event/reference-argument-content"  // content of a reference argument differs from the content at the Trigger call although no hook wrote to it
	fpPrArg        = "promise/reference-argument-replaced"
	fpDiscDeadlock = "deadlock/after-user-code" // + /<family>
	fpGroupLink    = "event/group-link"         // an event of a linked group did not fire exactly once per trigger of the current target group's event
	fpGroupArgs    = "event/group-constructor-changed-caller-slice"
	fpPanicEvUse   = "event/unusable-after-hook-panic"
	fpPanicPr      = "promise/after-callback-panic"
)

type discFamily struct {
	name  string
	quick int
	thor  int
	run   func(d *discEnv, no int, rng *rand.Rand)
}

var discFamilies = []discFamily{
	{"opts", 4000, 40000, (*discEnv).caseOpts},
	{"refargs", 600, 6000, (*discEnv).caseRefArgs},
	{"nested", 4000, 40000, (*discEnv).caseNested},
	{"pr-reent", 1500, 15000, (*discEnv).casePrReent},
	{"vn-reent", 800, 8000, (*discEnv).caseVnReent},
	{"group", 300, 3000, (*discEnv).caseGroup},
	{"panic-ev", 4000, 40000, (*discEnv).casePanicEv},
	{"panic-pr", 1000, 10000, (*discEnv).casePanicPr},
	{"panic-vn", 400, 4000, (*discEnv).casePanicVn},
}

type discCase struct {
	fam int
	no  int
}

func discCases(c *vf.Ctx) []discCase {
	var out []discCase
	// interleaved, so that a restart after a dead-locked case keeps touching every family
	max := 0
	for _, f := range discFamilies {
		if n := c.Pick(f.quick, f.thor); n > max {
			max = n
		}
	}
	for no := 0; no < max; no++ {
		for fi, f := range discFamilies {
			if no < c.Pick(f.quick, f.thor) {
				out = append(out, discCase{fi, no})
			}
		}
	}
	return out
}

type discEnv struct {
	c      *vf.Ctx
	rep    *reporter
	pool   *workerpool.WorkerPool
	counts map[string]int
	fam    string
	no     int
	noted  map[string]bool
}

func newDiscEnv(c *vf.Ctx) *discEnv {
	d := &discEnv{c: c, rep: newReporter(c), counts: map[string]int{}, noted: map[string]bool{}}
	d.pool = workerpool.New("c15-disc", workerpool.WithWorkerCount(2)).Start()
	return d
}

func (d *discEnv) drain() { d.pool.PendingTasksCounter.WaitIsZero() }

func (d *discEnv) count(k string, n int) { d.counts[k] += n }

func (d *discEnv) flush() {
	for k, v := range d.counts {
		d.c.Count(k, v)
		delete(d.counts, k)
	}
	d.c.FlushStats()
}

// noteOnce records an observation about behaviour the statement does not cover.
func (d *discEnv) noteOnce(key, text string) {
	if !d.noted[key] {
		d.noted[key] = true
		d.c.Note(text)
	}
}

func (d *discEnv) viol(fp, what string, detail any) {
	d.rep.viol(fp, fmt.Sprintf("%s case %d: %s", d.fam, d.no, what),
		replayRec{Kind: "disc", Child: "disc", Round: d.fam, RoundNo: d.no, Seed: d.c.Seed, Detail: detail})
}

func (d *discEnv) runCase(fam, no int) {
	f := discFamilies[fam]
	d.fam, d.no = f.name, no
	rng := d.c.Rand(fmt.Sprintf("disc/%s/%d", f.name, no))
	f.run(d, no, rng)
	d.count("evaluations", 1)
	d.count("disc_cases", 1)
	d.count("disc_cases:"+f.name, 1)
}

// discChild runs the cases from index lo on; args: lo, or "one" <family> <no>.
func discChild(c *vf.Ctx) {
	d := newDiscEnv(c)
	if len(c.ChildArgs) >= 3 && c.ChildArgs[0] == "one" {
		no, _ := strconv.Atoi(c.ChildArgs[2])
		for fi, f := range discFamilies {
			if f.name == c.ChildArgs[1] {
				c.Mark(f.name + " " + strconv.Itoa(no))
				d.runCase(fi, no)
			}
		}
		d.flush()
		return
	}
	lo, _ := strconv.Atoi(c.ChildArgs[0])
	cases := discCases(c)
	for idx := lo; idx < len(cases); idx++ {
		c.Mark(strconv.Itoa(idx))
		d.runCase(cases[idx].fam, cases[idx].no)
		if idx%256 == 255 {
			d.flush() // a dead-lock kills the process: little may be pending
		}
	}
	d.flush()
}

// discPart is the parent side: restarts the child behind a case that dead-locked.
func discPart(c *vf.Ctx) {
	cases := discCases(c)
	deadlocks := 0
	for lo := 0; lo < len(cases); {
		res := c.RunChild(vf.ChildOpts{Name: "disc", Args: []string{strconv.Itoa(lo)}, Timeout: 10 * time.Minute})
		c.Count("children_run", 1)
		idx, err := strconv.Atoi(res.LastMark)
		switch {
		case res.Deadlock && err == nil && idx >= 0 && idx < len(cases):
			cs := cases[idx]
			fam := discFamilies[cs.fam].name
			c.Count("disc_deadlocked_cases", 1)
			c.Violation(fpDiscDeadlock+"/"+fam,
				fmt.Sprintf("%s case %d: a call into the library never returns on a single goroutine (plain build, Go runtime: all goroutines are asleep): either a re-entrant call from user code or a call after user code panicked parks on a lock the library still holds", fam, cs.no),
				replayRec{Kind: "disc", Child: "disc", Round: fam, RoundNo: cs.no, Seed: c.Seed, Detail: tail(res.Stderr, 3000)})
			if deadlocks++; deadlocks >= 8 {
				c.Note("disciplines part stopped after 8 dead-locked cases")
				return
			}
			lo = idx + 1
			continue
		case res.TimedOut:
			c.Inconclusive("disciplines child hit the watchdog at case " + res.LastMark + " (stderr " + res.StderrPath + ")")
		case res.ExitCode != 0 || res.Fatal != "":
			if res.Fatal != "" && touches(res.Stderr) && err == nil && idx >= 0 && idx < len(cases) {
				cs := cases[idx]
				fam := discFamilies[cs.fam].name
				c.Violation("crash/disc", fmt.Sprintf("%s case %d: the child died: %s", fam, cs.no, res.Fatal),
					replayRec{Kind: "disc", Child: "disc", Round: fam, RoundNo: cs.no, Seed: c.Seed, Detail: tail(res.Stderr, 3000)})
			} else {
				c.Inconclusive(fmt.Sprintf("disciplines child died at case %s: exit %d %s (stderr %s)", res.LastMark, res.ExitCode, res.Fatal, res.StderrPath))
			}
		}
		break
	}
}

func discReplay(c *vf.Ctx, r replayRec) {
	seed := r.Seed
	if seed == 0 {
		seed = c.Seed
	}
	res := c.RunChild(vf.ChildOpts{Name: "disc", Args: []string{"one", r.Round, strconv.Itoa(r.RoundNo)}, Seed: seed, Timeout: 2 * time.Minute})
	switch {
	case res.Deadlock:
		c.Violation(fpDiscDeadlock+"/"+r.Round, fmt.Sprintf("%s case %d: a call into the library never returns on a single goroutine", r.Round, r.RoundNo), r)
	case res.TimedOut || res.ExitCode != 0:
		c.Inconclusive("replay child: " + res.Fatal)
	}
}

// discRequire registers the minimums of the disciplines part.
func discRequire(c *vf.Ctx) {
	c.Require("disc_cases", c.Pick(15000, 150000))
	c.Require("disc_opts_calls_with_spare_capacity_below_a_live_sibling_slot", 2000)
	c.Require("disc_opts_backing_array_slots_compared", 20000)
	c.Require("disc_opts_sibling_slices_used_after_a_shorter_one", 2000)
	c.Require("disc_opts_tables_scribbled_before_use", 1000)
	c.Require("disc_held_handles_rechecked", 10000)
	c.Require("disc_refargs_deliveries_identity_checked", 3000)
	c.Require("disc_refargs_hooks_scribbling_on_delivered_argument", 200)
	c.Require("disc_refargs_buffers_recycled_by_caller", 500)
	c.Require("disc_reent_nested_triggers", 4000)
	c.Require("disc_reent_nested_triggers_beyond_event_limit", 300)
	c.Require("disc_reent_nested_triggers_through_link", 300)
	c.Require("disc_reent_promise_calls_from_callbacks", 3000)
	c.Require("disc_reent_context_calls_into_notifier", 600)
	c.Require("disc_reent_group_relinks_from_hook", 60)
	c.Require("disc_panic_hooks_panicked_then_event_used", 3000)
	c.Require("disc_panic_pretrigger_panicked_then_event_used", 500)
	c.Require("disc_panic_promise_callbacks_panicked_then_event_used", 800)
	c.Require("disc_panic_contexts_panicked_then_notifier_used", 300)
}
