#!/usr/bin/env python3
"""Regenerates /verif/MANIFEST.json from the table below (single source of truth).
A property is claimed when its table entry has "ready": true and harness/<id>/main.go exists; otherwise it is listed
under not_applicable with the reason given here."""
import json, os, subprocess
ROOT = os.path.dirname(os.path.dirname(os.path.abspath(__file__)))
GOENV = "GOFLAGS=-mod=mod GOPROXY=off GOSUMDB=off GOTOOLCHAIN=local"
T = json.load(open(os.path.join(ROOT, "bin", "manifest_table.json")))
checks, na = [], []
for pid in sorted(T["properties"]):
    p = T["properties"][pid]
    if p.get("ready") and os.path.exists(os.path.join(ROOT, "harness", pid.lower(), "main.go")):
        checks.append({
            "property_id": pid,
            "quick_cmd": f"bin/check {pid} quick",
            "thorough_cmd": f"bin/check {pid} thorough",
            "evidence_file": f"/verif/evidence/{pid}.json",
            "replay_cmd_template": f"bin/check {pid} quick --replay {{path}}",
            "engine": "go-harness",
            "level_claimed": {"category": p["level"], "text": p["text"], "design_ref": p["design_ref"]},
            "level_note": p["note"],
            "technique": p["technique"],
        })
    else:
        na.append({"property_id": pid, "reason": p.get("na_reason", "check not built yet in this session; see DESIGN.md for the planned monitor")})
hooks = T["hooks"]
m = {
    "version": 1,
    "setup_cmd": "bin/setup",
    "hooks": hooks,
    "engines": [{"name": "go-harness", "path": "/verif/harness", "serves_properties": [c["property_id"] for c in checks],
                 "kind_free_text": "Go programs that execute the real packages of /repo (module replace) under generated/hostile/stress workloads with monitors: reference models, porcupine history checking, goroutine-snapshot dead-lock rules, Go race detector; driver bin/check"}],
    "checks": checks,
    "notes": T["notes"],
    "not_applicable": na,
}
json.dump(m, open(os.path.join(ROOT, "MANIFEST.json"), "w"), indent=1)
print(f"claimed {len(checks)}, not claimed {len(na)}")
