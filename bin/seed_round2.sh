#!/bin/bash
# usage: bin/seed_round2.sh CNN  — prepares /tmp/seed/CNN (worktree + prompt listing earlier mechanisms to avoid)
id=$1
git -C /repo worktree remove --force /tmp/seed/$id 2>/dev/null; git -C /repo worktree prune
git -C /repo worktree add --detach /tmp/seed/$id HEAD -q
prev=$(python3 - "$id" <<'PY'
import json,glob,sys
out=[]
for d in sorted(glob.glob(f'/verif/seeded/{sys.argv[1]}-*')):
    try: out.append('- '+json.load(open(d+'/meta.json')).get('mechanism','')[:300])
    except Exception: pass
print('\n'.join(out))
PY
)
python3 /verif/bin/seed_prompt.py $id /tmp/seed/$id "Earlier rounds already produced the following changes for this property; yours must use DIFFERENT mechanisms and preferably different functions/files, and should need rarer or more specific conditions to manifest. First list for yourself the distinct clauses of the statement and the exported functions/methods/options of the anchored files; then attack a CLAUSE and an exported entry point / option that none of the earlier changes touched (prefer: an interleaving window, a fault at one particular call, a three-or-more-step history, a boundary input, an unusual option/configuration, or two cooperating edits):
$prev
Functions in the anchored files that NO earlier change has touched yet (prefer these): $(python3 /verif/bin/untouched.py $id)
Note: the source may contain calls verifYield(\"...\") that are no-ops in normal builds; leave them in place." > /tmp/seed/$id.prompt
echo "$id ready"
