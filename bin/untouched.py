#!/usr/bin/env python3
"""Lists functions/methods of a property's anchored files that no seeded patch has touched yet (by hunk header / changed lines)."""
import json, re, sys, glob, os, subprocess
pid = sys.argv[1]
p = [json.loads(l) for l in open('/verif/properties.jsonl') if json.loads(l)['id'] == pid][0]
files = [f for f in p['anchors']['files'] if os.path.exists('/repo/' + f)]
touched = set()
for d in glob.glob(f'/verif/seeded/{pid}-*'):
    try:
        txt = open(d + '/patch.diff').read()
    except Exception:
        continue
    cur = None
    for l in txt.splitlines():
        if l.startswith('+++ b/'):
            cur = l[6:]
        m = re.match(r'^@@.*@@\s*func\s*(\([^)]*\)\s*)?([A-Za-z0-9_]+)', l)
        if m and cur:
            touched.add((cur, m.group(2)))
        m = re.match(r'^[+-]func\s*(\([^)]*\)\s*)?([A-Za-z0-9_]+)', l)
        if m and cur:
            touched.add((cur, m.group(2)))
out = []
for f in files:
    src = open('/repo/' + f).read()
    for m in re.finditer(r'^func\s*(\([^)]*\)\s*)?([A-Za-z0-9_]+)', src, re.M):
        name = m.group(2)
        if (f, name) not in touched:
            out.append(f"{f}:{name}")
print(', '.join(out[:120]))
