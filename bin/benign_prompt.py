#!/usr/bin/env python3
"""Prompt for a sub-agent that writes BEHAVIOUR-PRESERVING changes (to test that the checks raise no false alarm)."""
import json, sys
pid, wt = sys.argv[1], sys.argv[2]
extra = sys.argv[3] if len(sys.argv) > 3 else ""
p = [json.loads(l) for l in open('/verif/properties.jsonl') if json.loads(l)['id'] == pid][0]
print(f"""You are helping to test a verification setup for the Go library iotaledger/hive.go for FALSE ALARMS. You have your own scratch git worktree of the repository at {wt} (Go 1.23; 19 separate Go modules, one per top-level directory). Work ONLY inside {wt}; do not read, list or write anything under /verif or /repo; do not run git commit and never use `git stash` (the stash is shared between all worktrees). Shell env for every command: export GOFLAGS=-mod=mod GOPROXY=off GOSUMDB=off GOTOOLCHAIN=local (no network).

The property that must KEEP holding:

  Title: {p['title']}
  Statement: {p['statement']}
  Code anchors: {', '.join(p['anchors']['files'])}

Your task: write TWO different behaviour-preserving changes to the library source in the anchored files (not to tests), of the kind a maintainer does all the time, after which the property above still holds for every input and every schedule: e.g. rename unexported functions/methods/fields/types (including the goroutine entry functions and internal helpers), extract or inline helper functions, move code between files of the same package, restructure control flow (early returns, loop forms), replace an internal data structure by an equivalent one, change internal lock granularity in a way that is still correct, change the wording of error messages / panic messages (keeping the sentinel errors that are part of the API and keeping which calls panic), add or remove internal logging-free fast paths that are provably equivalent, reorder independent statements, change buffer pre-sizing where it is bounded by the input. {extra} Make them non-trivial (each touching several functions) but be careful to preserve behaviour exactly as far as the statement is concerned: same results, same errors (errors.Is-compatible), same blocking/termination behaviour, same thread-safety, no new unbounded allocation. Keep every exported identifier and every call `verifYield("...")` (a no-op hook) exactly where it is relative to the surrounding statements.

Deliver each change in its own directory {wt}/out1 and {wt}/out2:
  patch.diff - `git diff` of the change (must apply with `git apply` on a clean checkout of HEAD)
  meta.json  - {{"property": "{pid}", "module": "<top-level module dir>", "kind": "benign", "what": "<what was changed>", "why_equivalent": "<why the property still holds>", "ran": "<commands and outcomes>"}}

Verify: with the patch the module builds (`go build ./...`, also `go build -tags verif ./...`) and `go test -count=1 ./...` in the module passes (timing/heap-noise tests such as runtime/timed TestTimedExecutor_MemLeak, core/eventticker TestRescheduleTicker, ds/reactive TestClock, runtime/backoff may flake on the unchanged tree too; ignore those). Leave the worktree clean of library edits at the end (git checkout -- .), keeping only out1/ out2/. Final message: 3-4 lines per change.""")
