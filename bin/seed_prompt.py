#!/usr/bin/env python3
"""Prints the prompt for an independent seeding sub-agent (it gets only the property text and a scratch worktree)."""
import json, sys
pid, wt = sys.argv[1], sys.argv[2]
extra = sys.argv[3] if len(sys.argv) > 3 else ""
p = [json.loads(l) for l in open('/verif/properties.jsonl') if json.loads(l)['id'] == pid][0]
print(f"""You are testing how well a verification setup detects regressions in the Go library iotaledger/hive.go. You have your own scratch git worktree of the repository at {wt} (Go 1.23; the repo is 19 separate Go modules, one per top-level directory such as ds/, kvstore/, runtime/, serializer/, core/, app/, ads/, web/). IMPORTANT: work ONLY inside {wt}. Do not read, list or write anything under /verif or /repo, and do not run git commit and never use `git stash` (the stash is shared between all worktrees of the repository; to get back to a clean tree use `git diff > /tmp/seed/<id>/my.diff; git checkout -- .` instead). Shell env for every command: export GOFLAGS=-mod=mod GOPROXY=off GOSUMDB=off GOTOOLCHAIN=local (no network). Note that each module's tests compile the module-cache copy of its sibling modules, so keep your change AND your demonstration inside ONE module.

The property (a semantic guarantee users rely on):

  Title: {p['title']}
  Statement: {p['statement']}
  Quantified over: {p['quantifier']['text']}
  Code anchors: {', '.join(p['anchors']['files'])}

Your task: write a change to the library source (not to tests) that BREAKS this property while the code still compiles and the module's existing test suite still passes (run `go test -count=1 ./...` inside the module directory, before and after). The change must look like a plausible regression (a refactoring slip, an optimisation, a dropped lock/check, a reordered statement, an off-by-one, an error swallowed), and it must need something SPECIFIC to manifest: a particular interleaving, a crash or fault at a particular point, a multi-step sequence of operations, an unusual input, or two cooperating sites that each look fine alone. Do NOT produce a change that ordinary use would expose at once (e.g. breaking the common path of a basic operation). {extra}

Deliver two DIFFERENT such changes if you can (different mechanism / different code site), each in its own directory {wt}/out1 and {wt}/out2 (one is acceptable if a second is not feasible):
  patch.diff   - `git diff` of the library change only (paths relative to the repo root; must apply with `git apply` on a clean checkout of HEAD)
  demo_test.go - a Go test file (package clause matching the package directory it is meant to be dropped into; external _test package or internal, your choice; it may contain several tests but name the one to run) that PASSES on the unchanged tree and FAILS with the patch applied, within 60 s, as deterministically as you can make it (loop a racy scenario enough times, or force the interleaving with channels / a custom store / a custom reader). It must not depend on any file outside the standard library, the module and its existing dependencies.
  meta.json    - {{"property": "{pid}", "module": "<top-level module dir, e.g. kvstore>", "demo_pkg_dir": "<package dir relative to repo root, e.g. kvstore/mapdb>", "demo_file": "demo_test.go", "demo_run": "<regexp for go test -run>", "needs": "<what it needs in order to manifest>", "mechanism": "<one sentence: what the change does>", "ran": "<the commands you ran and their outcomes>"}}

Verify yourself before finishing: (1) on clean HEAD the demo passes; (2) with the patch the module builds, `go vet` is not required; (3) with the patch the demo fails; (4) with the patch and WITHOUT the demo file, `go test -count=1 ./...` in the module passes (if a test is flaky independent of your change, say so). Leave the worktree clean of your library edits at the end (git checkout -- . ; keep only the out1/ out2/ directories). Final message: for each change, 3-5 lines: mechanism, what it needs to manifest, and the verification outcomes.""")
